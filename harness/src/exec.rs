//! Scenario executor: runs programs against the real crate and records what happened.

use std::cell::{Cell, RefCell};
use std::io::{BufRead, Write};
use std::panic::{catch_unwind, AssertUnwindSafe};
use std::rc::Rc;

use embedded_graphics_core::draw_target::DrawTarget;
use embedded_graphics_core::geometry::{OriginDimensions, Point, Size};
use embedded_graphics_core::pixelcolor::raw::{RawU16, RawU24};
use embedded_graphics_core::pixelcolor::{Rgb565, Rgb666, RgbColor};
use embedded_graphics_core::prelude::{Drawable, RawData};
use embedded_graphics_core::primitives::Rectangle;
use embedded_graphics_core::Pixel;
use embedded_hal::digital::OutputPin;
use mipidsi::dcs::{DcsCommand, InterfaceExt};
use mipidsi::interface::{
    Generic16BitBus, Generic8BitBus, Interface, InterfacePixelFormat, OutputBus, ParallelError,
    ParallelInterface, SpiError, SpiInterface,
};
use mipidsi::models::*;
use mipidsi::options::*;
use mipidsi::{Builder, ConfigurationError, Display, InitError, NoResetPin, TestImage};
use serde::Deserialize;
use serde_json::{json, Map, Value};

use crate::mocks::*;
use crate::tiny::*;

// ------------------------------------------------------------------ scenario format

#[derive(Deserialize, Clone)]
pub struct Cfg {
    pub model: String,
    #[serde(default)]
    pub w: Option<u16>,
    #[serde(default)]
    pub h: Option<u16>,
    #[serde(default)]
    pub ox: Option<u16>,
    #[serde(default)]
    pub oy: Option<u16>,
    #[serde(default)]
    pub rot: u8,
    #[serde(default)]
    pub mir: bool,
    #[serde(default)]
    pub bgr: bool,
    #[serde(default)]
    pub inv: bool,
    #[serde(default)]
    pub refv: u8,
    #[serde(default)]
    pub refh: u8,
    #[serde(default)]
    pub rst: bool,
    pub iface: String,
    #[serde(default)]
    pub buf: usize,
    /// order of the Builder calls ("color", "invert", "refresh", "orient", "size", "offset", "rst"; a trailing "0" is a
    /// decoy call of the same kind with other values, overridden by the real one later); default order if absent
    #[serde(default)]
    pub border: Option<Vec<String>>,
}

#[derive(Deserialize, Clone)]
pub struct Fault {
    pub call: usize,
    pub k: u32,
    #[serde(default)]
    pub effect: bool,
}

#[derive(Deserialize)]
pub struct Scenario {
    pub id: i64,
    pub cfg: Cfg,
    pub calls: Vec<Value>,
    #[serde(default)]
    pub fault: Option<Fault>,
    /// several injected failures (at most one per call)
    #[serde(default)]
    pub faults: Vec<Fault>,
    #[serde(default)]
    pub budget: Option<u64>,
    #[serde(default)]
    pub tag: Option<Value>,
}

// ------------------------------------------------------------------ errors

pub struct ErrInfo {
    pub path: Vec<String>,
    pub k: u32,
}

pub trait ErrPath {
    fn info(&self) -> ErrInfo;
}
impl ErrPath for RecErr {
    fn info(&self) -> ErrInfo {
        ErrInfo { path: vec!["Rec".into()], k: self.0 }
    }
}
impl ErrPath for PinErr {
    fn info(&self) -> ErrInfo {
        ErrInfo { path: vec!["Pin".into()], k: self.0 }
    }
}
impl ErrPath for SpiError<SpiErr, PinErr> {
    fn info(&self) -> ErrInfo {
        match self {
            SpiError::Spi(e) => ErrInfo { path: vec!["Spi".into()], k: e.0 },
            SpiError::Dc(e) => ErrInfo { path: vec!["Dc".into()], k: e.0 },
        }
    }
}
impl ErrPath for ParallelError<PinErr, PinErr, PinErr> {
    fn info(&self) -> ErrInfo {
        match self {
            ParallelError::Bus(e) => ErrInfo { path: vec!["Bus".into()], k: e.0 },
            ParallelError::Dc(e) => ErrInfo { path: vec!["Dc".into()], k: e.0 },
            ParallelError::Wr(e) => ErrInfo { path: vec!["Wr".into()], k: e.0 },
        }
    }
}
impl<T: ErrPath> ErrPath for &T {
    fn info(&self) -> ErrInfo {
        (*self).info()
    }
}

pub trait PinK {
    fn k(&self) -> u32;
}
impl PinK for PinErr {
    fn k(&self) -> u32 {
        self.0
    }
}
impl PinK for core::convert::Infallible {
    fn k(&self) -> u32 {
        0
    }
}

fn cfg_err_name(ce: &ConfigurationError) -> String {
    format!("{ce:?}")
}

fn init_err_info<E: ErrPath, P: PinK>(e: &InitError<E, P>) -> ErrInfo {
    match e {
        InitError::Interface(e) => {
            let mut i = e.info();
            i.path.insert(0, "Interface".into());
            i
        }
        InitError::ResetPin(p) => ErrInfo { path: vec!["ResetPin".into()], k: p.k() },
        InitError::InvalidConfiguration(ce) => ErrInfo {
            path: vec!["InvalidConfiguration".into(), cfg_err_name(ce)],
            k: 0,
        },
    }
}

// ------------------------------------------------------------------ colours

pub trait HColor: RgbColor + 'static {
    const NAME: &'static str;
    fn from_raw(v: u32) -> Self;
}
impl HColor for Rgb565 {
    const NAME: &'static str = "565";
    fn from_raw(v: u32) -> Self {
        Rgb565::from(RawU16::new(v as u16))
    }
}
impl HColor for Rgb666 {
    const NAME: &'static str = "666";
    fn from_raw(v: u32) -> Self {
        Rgb666::from(RawU24::new(v))
    }
}
#[allow(dead_code)]
pub fn raw565(c: Rgb565) -> u32 {
    RawU16::from(c).into_inner() as u32
}
#[allow(dead_code)]
pub fn raw666(c: Rgb666) -> u32 {
    RawU24::from(c).into_inner()
}

/// Colour iterator whose k-th element encodes k; counts how far it was consumed.
struct IdxColors<C> {
    idx: u64,
    end: Option<u64>,
    start: u64,
    pulled: Rc<Cell<u64>>,
    calls: Rc<Cell<u64>>,
    limit: u64,
    /// not fused: after the `None` at `end` the iterator yields this many further colours
    resume: u64,
    gap_done: bool,
    _c: core::marker::PhantomData<C>,
}
impl<C: HColor> Iterator for IdxColors<C> {
    type Item = C;
    fn next(&mut self) -> Option<C> {
        self.calls.set(self.calls.get() + 1);
        if self.calls.get() > self.limit {
            panic!("{}", BUDGET_MSG);
        }
        if let Some(e) = self.end {
            if self.idx >= e {
                if !self.gap_done || self.idx >= e + self.resume {
                    self.gap_done = true;
                    return None;
                }
            }
        }
        let v = (self.start + self.idx) as u32;
        self.idx += 1;
        self.pulled.set(self.idx);
        Some(C::from_raw(v))
    }
    fn size_hint(&self) -> (usize, Option<usize>) {
        // exact for finite streams, as a slice or range iterator would report
        match self.end {
            Some(e) => {
                let e = if self.gap_done { e + self.resume } else { e };
                let r = e.saturating_sub(self.idx) as usize;
                (r, Some(r))
            }
            None => (usize::MAX, None),
        }
    }
    fn nth(&mut self, n: usize) -> Option<C> {
        // O(1) skip, as a slice or range iterator would provide
        let n = n as u64;
        match self.end {
            Some(e) if !self.gap_done && self.idx + n >= e => {
                self.idx = e;
                self.gap_done = true;
                self.pulled.set(self.idx);
                self.calls.set(self.calls.get() + 1);
                None
            }
            _ => {
                self.idx += n;
                self.next()
            }
        }
    }
}

/// A legal iterator that is not fused: it yields `first`, then `None` once, then `second`, then `None` again.
/// A stream given to a call ends at its first `None`; what the iterator would yield afterwards is not part of it.
struct Resuming<I, J> {
    first: I,
    second: J,
    ended: bool,
    /// number of items handed out after the first `None`
    resumed: Rc<Cell<u64>>,
}
impl<T, I: Iterator<Item = T>, J: Iterator<Item = T>> Iterator for Resuming<I, J> {
    type Item = T;
    fn next(&mut self) -> Option<T> {
        if !self.ended {
            match self.first.next() {
                Some(v) => return Some(v),
                None => {
                    self.ended = true;
                    return None;
                }
            }
        }
        let v = self.second.next();
        if v.is_some() {
            self.resumed.set(self.resumed.get() + 1);
        }
        v
    }
}
fn resuming<T, I: Iterator<Item = T>, J: Iterator<Item = T>>(first: I, second: J, resumed: &Rc<Cell<u64>>) -> Resuming<I, J> {
    Resuming { first, second, ended: false, resumed: resumed.clone() }
}
fn opt_arr<'a>(a: &'a Value, k: &str) -> &'a [Value] {
    a.get(k).and_then(|v| v.as_array()).map(|v| v.as_slice()).unwrap_or(&[])
}

// ------------------------------------------------------------------ argument helpers

fn gi(a: &Value, k: &str) -> i64 {
    a.get(k).and_then(|v| v.as_i64()).unwrap_or_else(|| panic!("HARNESS: missing int arg {k}"))
}
fn garr(a: &Value, k: &str) -> Vec<i64> {
    a.get(k)
        .and_then(|v| v.as_array())
        .unwrap_or_else(|| panic!("HARNESS: missing array arg {k}"))
        .iter()
        .map(|v| v.as_i64().unwrap())
        .collect()
}
/// counts are given either as a number or as [hi, lo] base 65536
fn gcount(a: &Value, k: &str) -> u64 {
    match a.get(k) {
        Some(Value::Array(v)) => (v[0].as_u64().unwrap() << 16) + v[1].as_u64().unwrap(),
        Some(v) => v.as_u64().unwrap(),
        None => panic!("HARNESS: missing count {k}"),
    }
}
fn rect_of(a: &Value) -> Rectangle {
    let r = garr(a, "rect");
    Rectangle::new(Point::new(r[0] as i32, r[1] as i32), Size::new(r[2] as u32, r[3] as u32))
}
fn rotation_of(r: i64) -> Rotation {
    match r {
        0 => Rotation::Deg0,
        1 => Rotation::Deg90,
        2 => Rotation::Deg180,
        _ => Rotation::Deg270,
    }
}
pub fn rot_index(r: Rotation) -> u8 {
    match r {
        Rotation::Deg0 => 0,
        Rotation::Deg90 => 1,
        Rotation::Deg180 => 2,
        Rotation::Deg270 => 3,
    }
}

// ------------------------------------------------------------------ objects under test

pub trait Ops {
    fn call(&mut self, name: &str, a: &Value, x: &mut Map<String, Value>) -> Result<(), ErrInfo>;
    fn obs(&self) -> Value;
    /// `Display::release()` and a new `Builder::new(model, di) ... init()` over the very same interface, model and
    /// reset pin objects
    fn reinit(self: Box<Self>, _c: &Cfg) -> Built {
        panic!("HARNESS: reinit is for displays")
    }
}

impl<DI, M, RST> Ops for Display<DI, M, RST>
where
    DI: Interface + 'static,
    DI::Error: ErrPath,
    M: Model + 'static,
    M::ColorFormat: InterfacePixelFormat<DI::Word> + HColor,
    RST: OutputPin + 'static,
    RST::Error: PinK,
{
    fn reinit(self: Box<Self>, c: &Cfg) -> Built {
        let (di, m, rst) = self.release();
        finish_with(Builder::new(m, di), c, rst)
    }

    fn call(&mut self, name: &str, a: &Value, x: &mut Map<String, Value>) -> Result<(), ErrInfo> {
        let budget = TL.with(|t| t.borrow().budget);
        let r: Result<(), DI::Error> = match name {
            "set_pixel" => self.set_pixel(
                gi(a, "x") as u16,
                gi(a, "y") as u16,
                M::ColorFormat::from_raw(gi(a, "c") as u32),
            ),
            "set_pixels" => {
                let w = garr(a, "win");
                let cols = garr(a, "colors");
                let more: Vec<i64> = opt_arr(a, "resume").iter().map(|v| v.as_i64().unwrap()).collect();
                let resumed = Rc::new(Cell::new(0));
                let first = cols.into_iter().map(|c| M::ColorFormat::from_raw(c as u32));
                let r = if a.get("resume").is_some() {
                    let second = more.into_iter().map(|c| M::ColorFormat::from_raw(c as u32));
                    self.set_pixels(w[0] as u16, w[1] as u16, w[2] as u16, w[3] as u16, resuming(first, second, &resumed))
                } else {
                    self.set_pixels(w[0] as u16, w[1] as u16, w[2] as u16, w[3] as u16, first)
                };
                if a.get("resume").is_some() {
                    x.insert("resumed".into(), json!(resumed.get()));
                }
                r
            }
            "draw_iter" => {
                let px = a.get("px").and_then(|v| v.as_array()).expect("HARNESS: px");
                let mk = |p: &Value| {
                    let p = p.as_array().unwrap();
                    Pixel(
                        Point::new(p[0].as_i64().unwrap() as i32, p[1].as_i64().unwrap() as i32),
                        M::ColorFormat::from_raw(p[2].as_i64().unwrap() as u32),
                    )
                };
                let it = px.iter().map(mk);
                if a.get("resume").is_some() {
                    let resumed = Rc::new(Cell::new(0));
                    let r = self.draw_iter(resuming(it, opt_arr(a, "resume").iter().map(mk), &resumed));
                    x.insert("resumed".into(), json!(resumed.get()));
                    r
                } else {
                    self.draw_iter(it)
                }
            }
            "fill_solid" => self.fill_solid(&rect_of(a), M::ColorFormat::from_raw(gi(a, "c") as u32)),
            "fill_contiguous" => {
                let c = a.get("colors").expect("HARNESS: colors");
                let len = gi(c, "len");
                let pulled = Rc::new(Cell::new(0));
                let calls = Rc::new(Cell::new(0));
                let it = IdxColors::<M::ColorFormat> {
                    idx: 0,
                    end: if len < 0 { None } else { Some(len as u64) },
                    start: gi(c, "start") as u64,
                    pulled: pulled.clone(),
                    calls: calls.clone(),
                    limit: budget * 8,
                    resume: c.get("resume").and_then(|v| v.as_u64()).unwrap_or(0),
                    gap_done: false,
                    _c: core::marker::PhantomData,
                };
                let r = self.fill_contiguous(&rect_of(a), it);
                x.insert("pulled".into(), json!(pulled.get().min(0x7fff_ffff)));
                r
            }
            "clear" => self.clear(M::ColorFormat::from_raw(gi(a, "c") as u32)),
            "set_orientation" => self.set_orientation(Orientation {
                rotation: rotation_of(gi(a, "rot")),
                mirrored: a.get("mir").and_then(|v| v.as_bool()).unwrap_or(false),
            }),
            "scroll_region" => self.set_vertical_scroll_region(gi(a, "top") as u16, gi(a, "bottom") as u16),
            "scroll_offset" => self.set_vertical_scroll_offset(gi(a, "v") as u16),
            "tearing" => {
                let m = match a.get("mode").and_then(|v| v.as_str()).unwrap_or("off") {
                    "v" => TearingEffect::Vertical,
                    "hv" => TearingEffect::HorizontalAndVertical,
                    _ => TearingEffect::Off,
                };
                self.set_tearing_effect(m)
            }
            "sleep" => self.sleep(&mut RecDelay),
            "wake" => self.wake(&mut RecDelay),
            "test_image" => TestImage::<M::ColorFormat>::new().draw(self),
            "raw" => {
                let p: Vec<u8> = garr(a, "params").into_iter().map(|v| v as u8).collect();
                unsafe { self.dcs().write_raw(gi(a, "op") as u8, &p) }
            }
            _ => panic!("HARNESS: unknown display call {name}"),
        };
        r.map_err(|e| e.info())
    }

    fn obs(&self) -> Value {
        let o = self.orientation();
        let s = self.size();
        json!({"rot": rot_index(o.rotation), "mir": o.mirrored, "size": [s.width, s.height],
               "sleeping": self.is_sleeping()})
    }
}

/// A transport addressed directly (C06 / C07).
pub struct XportObj<DI>(pub DI);

fn words<W: HWord, const N: usize>(v: &[i64]) -> [W; N] {
    let mut out = [W::from_u64(0); N];
    for i in 0..N {
        out[i] = W::from_u64(v[i] as u64);
    }
    out
}

impl<DI> Ops for XportObj<DI>
where
    DI: Interface,
    DI::Word: HWord,
    DI::Error: ErrPath,
{
    fn call(&mut self, name: &str, a: &Value, _x: &mut Map<String, Value>) -> Result<(), ErrInfo> {
        let r: Result<(), DI::Error> = match name {
            "xport.send_command" => {
                let p: Vec<u8> = garr(a, "params").into_iter().map(|v| v as u8).collect();
                self.0.send_command(gi(a, "op") as u8, &p)
            }
            "xport.write_raw" => {
                let p: Vec<u8> = garr(a, "params").into_iter().map(|v| v as u8).collect();
                self.0.write_raw(gi(a, "op") as u8, &p)
            }
            "xport.send_pixels" => {
                let n = gi(a, "n");
                let px: Vec<Vec<i64>> = a
                    .get("px")
                    .and_then(|v| v.as_array())
                    .expect("HARNESS: px")
                    .iter()
                    .map(|p| p.as_array().unwrap().iter().map(|v| v.as_i64().unwrap()).collect())
                    .collect();
                let more: Vec<Vec<i64>> = opt_arr(a, "resume")
                    .iter()
                    .map(|p| p.as_array().unwrap().iter().map(|v| v.as_i64().unwrap()).collect())
                    .collect();
                let resumed = Rc::new(Cell::new(0));
                let r = if a.get("resume").is_some() {
                    match n {
                        1 => self.0.send_pixels(resuming(px.iter().map(|p| words::<DI::Word, 1>(p)), more.iter().map(|p| words::<DI::Word, 1>(p)), &resumed)),
                        2 => self.0.send_pixels(resuming(px.iter().map(|p| words::<DI::Word, 2>(p)), more.iter().map(|p| words::<DI::Word, 2>(p)), &resumed)),
                        3 => self.0.send_pixels(resuming(px.iter().map(|p| words::<DI::Word, 3>(p)), more.iter().map(|p| words::<DI::Word, 3>(p)), &resumed)),
                        _ => panic!("HARNESS: n"),
                    }
                } else {
                    match n {
                        1 => self.0.send_pixels(px.iter().map(|p| words::<DI::Word, 1>(p))),
                        2 => self.0.send_pixels(px.iter().map(|p| words::<DI::Word, 2>(p))),
                        3 => self.0.send_pixels(px.iter().map(|p| words::<DI::Word, 3>(p))),
                        _ => panic!("HARNESS: n"),
                    }
                };
                if a.get("resume").is_some() {
                    _x.insert("resumed".into(), json!(resumed.get()));
                }
                r
            }
            "xport.send_repeated_pixel" => {
                let n = gi(a, "n");
                let p = garr(a, "pixel");
                let count = gcount(a, "count") as u32;
                match n {
                    1 => self.0.send_repeated_pixel(words::<DI::Word, 1>(&p), count),
                    2 => self.0.send_repeated_pixel(words::<DI::Word, 2>(&p), count),
                    3 => self.0.send_repeated_pixel(words::<DI::Word, 3>(&p), count),
                    _ => panic!("HARNESS: n"),
                }
            }
            _ => panic!("HARNESS: unknown xport call {name}"),
        };
        r.map_err(|e| e.info())
    }
    fn obs(&self) -> Value {
        json!({})
    }
}

pub struct BusObj<B>(pub B);
impl<B> Ops for BusObj<B>
where
    B: OutputBus<Error = PinErr>,
    B::Word: HWord,
{
    fn call(&mut self, name: &str, a: &Value, _x: &mut Map<String, Value>) -> Result<(), ErrInfo> {
        match name {
            "bus.set_value" => self
                .0
                .set_value(B::Word::from_u64(gi(a, "v") as u64))
                .map_err(|e| e.info()),
            _ => panic!("HARNESS: unknown bus call {name}"),
        }
    }
    fn obs(&self) -> Value {
        json!({})
    }
}

// ------------------------------------------------------------------ construction

static mut SPIBUF: [u8; 1 << 17] = [0; 1 << 17];

fn spi_buffer(n: usize) -> &'static mut [u8] {
    // one scenario at a time, single-threaded: the previous borrower is gone
    unsafe {
        let b = &mut *core::ptr::addr_of_mut!(SPIBUF);
        for x in b.iter_mut().take(n) {
            *x = 0xEE; // poison, so that stale staging content is recognisable on the wire
        }
        &mut b[..n]
    }
}

fn bus8() -> Generic8BitBus<RecPin, RecPin, RecPin, RecPin, RecPin, RecPin, RecPin, RecPin> {
    Generic8BitBus::new((
        RecPin(PinId::D(0)),
        RecPin(PinId::D(1)),
        RecPin(PinId::D(2)),
        RecPin(PinId::D(3)),
        RecPin(PinId::D(4)),
        RecPin(PinId::D(5)),
        RecPin(PinId::D(6)),
        RecPin(PinId::D(7)),
    ))
}
#[allow(clippy::type_complexity)]
fn bus16() -> Generic16BitBus<
    RecPin, RecPin, RecPin, RecPin, RecPin, RecPin, RecPin, RecPin,
    RecPin, RecPin, RecPin, RecPin, RecPin, RecPin, RecPin, RecPin,
> {
    Generic16BitBus::new((
        RecPin(PinId::D(0)),
        RecPin(PinId::D(1)),
        RecPin(PinId::D(2)),
        RecPin(PinId::D(3)),
        RecPin(PinId::D(4)),
        RecPin(PinId::D(5)),
        RecPin(PinId::D(6)),
        RecPin(PinId::D(7)),
        RecPin(PinId::D(8)),
        RecPin(PinId::D(9)),
        RecPin(PinId::D(10)),
        RecPin(PinId::D(11)),
        RecPin(PinId::D(12)),
        RecPin(PinId::D(13)),
        RecPin(PinId::D(14)),
        RecPin(PinId::D(15)),
    ))
}

fn color_order(c: &Cfg) -> ColorOrder {
    if c.bgr { ColorOrder::Bgr } else { ColorOrder::Rgb }
}
fn inversion(c: &Cfg) -> ColorInversion {
    if c.inv { ColorInversion::Inverted } else { ColorInversion::Normal }
}
fn refresh(c: &Cfg) -> RefreshOrder {
    RefreshOrder::new(
        if c.refv != 0 { VerticalRefreshOrder::BottomToTop } else { VerticalRefreshOrder::TopToBottom },
        if c.refh != 0 { HorizontalRefreshOrder::RightToLeft } else { HorizontalRefreshOrder::LeftToRight },
    )
}
fn orientation(c: &Cfg) -> Orientation {
    Orientation { rotation: rotation_of(c.rot as i64), mirrored: c.mir }
}

type Built = Result<Box<dyn Ops>, ErrInfo>;

fn default_steps(c: &Cfg) -> Vec<String> {
    let mut v: Vec<String> = ["color", "invert", "refresh", "orient", "size", "offset"].iter().map(|s| s.to_string()).collect();
    if c.rst {
        v.push("rst".into());
    }
    v
}

fn apply_steps<DI, M, RST>(mut b: Builder<DI, M, RST>, steps: &[String], c: &Cfg) -> Builder<DI, M, RST>
where
    DI: Interface,
    M: Model,
    M::ColorFormat: InterfacePixelFormat<DI::Word>,
    RST: OutputPin,
{
    for s in steps {
        b = match s.as_str() {
            "color" => b.color_order(color_order(c)),
            "invert" => b.invert_colors(inversion(c)),
            "refresh" => b.refresh_order(refresh(c)),
            "orient" => b.orientation(orientation(c)),
            "size" => match (c.w, c.h) {
                (Some(w), Some(h)) => b.display_size(w, h),
                _ => b,
            },
            "offset" => match (c.ox, c.oy) {
                (Some(ox), Some(oy)) => b.display_offset(ox, oy),
                _ => b,
            },
            // decoys
            "color0" => b.color_order(if c.bgr { ColorOrder::Rgb } else { ColorOrder::Bgr }),
            "invert0" => b.invert_colors(if c.inv { ColorInversion::Normal } else { ColorInversion::Inverted }),
            "refresh0" => {
                let mut o = c.clone();
                o.refv ^= 1;
                o.refh ^= 1;
                b.refresh_order(refresh(&o))
            }
            "orient0" => {
                let mut o = c.clone();
                o.rot = (o.rot + 1) % 4;
                o.mir = !o.mir;
                b.orientation(orientation(&o))
            }
            "size0" => b.display_size(1, 1),
            "offset0" => b.display_offset(1, 0),
            o => panic!("HARNESS: builder step {o}"),
        };
    }
    b
}

/// Builder calls in the configured order; the reset pin (if any) is attached where the order says
fn finish_with<DI, M, R>(b: Builder<DI, M, NoResetPin>, c: &Cfg, rst: Option<R>) -> Built
where
    DI: Interface + 'static,
    DI::Error: ErrPath,
    M: Model + 'static,
    M::ColorFormat: InterfacePixelFormat<DI::Word> + HColor,
    R: OutputPin + 'static,
    R::Error: PinK,
{
    let steps = c.border.clone().unwrap_or_else(|| default_steps(c));
    match rst {
        Some(pin) => {
            let at = steps.iter().position(|s| s == "rst").unwrap_or(steps.len());
            let b = apply_steps(b, &steps[..at], c).reset_pin(pin);
            let rest: &[String] = if at < steps.len() { &steps[at + 1..] } else { &[] };
            match apply_steps(b, rest, c).init(&mut RecDelay) {
                Ok(d) => Ok(Box::new(d)),
                Err(e) => Err(init_err_info(&e)),
            }
        }
        None => {
            let steps: Vec<String> = steps.into_iter().filter(|s| s != "rst").collect();
            match apply_steps(b, &steps, c).init(&mut RecDelay) {
                Ok(d) => Ok(Box::new(d)),
                Err(e) => Err(init_err_info(&e)),
            }
        }
    }
}

fn finish<DI, M>(b: Builder<DI, M, NoResetPin>, c: &Cfg) -> Built
where
    DI: Interface + 'static,
    DI::Error: ErrPath,
    M: Model + 'static,
    M::ColorFormat: InterfacePixelFormat<DI::Word> + HColor,
{
    finish_with(b, c, if c.rst { Some(RecPin(PinId::Rst)) } else { None })
}

fn build8<M>(m: M, c: &Cfg) -> Built
where
    M: Model + 'static,
    M::ColorFormat: InterfacePixelFormat<u8> + HColor,
{
    match c.iface.as_str() {
        "rec" => finish(Builder::new(m, RecInterface::<u8, 0>::new()), c),
        "rec_p8" => finish(Builder::new(m, RecInterface::<u8, 1>::new()), c),
        "spi" => finish(
            Builder::new(m, SpiInterface::new(RecSpi, RecPin(PinId::Dc), spi_buffer(c.buf))),
            c,
        ),
        "p8" => finish(
            Builder::new(m, ParallelInterface::new(bus8(), RecPin(PinId::Dc), RecPin(PinId::Wr))),
            c,
        ),
        // the same transports handed over by mutable reference (the blanket `impl Interface for &mut T`)
        "spi_ref" => {
            let di: &'static mut SpiInterface<'static, RecSpi, RecPin> =
                Box::leak(Box::new(SpiInterface::new(RecSpi, RecPin(PinId::Dc), spi_buffer(c.buf))));
            finish(Builder::new(m, di), c)
        }
        "p8_ref" => {
            let di = Box::leak(Box::new(ParallelInterface::new(bus8(), RecPin(PinId::Dc), RecPin(PinId::Wr))));
            finish(Builder::new(m, di), c)
        }
        "rec_ref" => {
            let di = Box::leak(Box::new(RecInterface::<u8, 0>::new()));
            finish(Builder::new(m, di), c)
        }
        o => panic!("HARNESS: iface {o} not available for this model"),
    }
}

fn build16<M>(m: M, c: &Cfg) -> Built
where
    M: Model + 'static,
    M::ColorFormat: InterfacePixelFormat<u16> + HColor,
{
    match c.iface.as_str() {
        "rec_p16" => finish(Builder::new(m, RecInterface::<u16, 2>::new()), c),
        "p16" => finish(
            Builder::new(m, ParallelInterface::new(bus16(), RecPin(PinId::Dc), RecPin(PinId::Wr))),
            c,
        ),
        "p16_ref" => {
            let di = Box::leak(Box::new(ParallelInterface::new(bus16(), RecPin(PinId::Dc), RecPin(PinId::Wr))));
            finish(Builder::new(m, di), c)
        }
        o => panic!("HARNESS: iface {o} not available for this model"),
    }
}

fn is16(c: &Cfg) -> bool {
    matches!(c.iface.as_str(), "p16" | "rec_p16" | "p16_ref")
}

macro_rules! both {
    ($m:expr, $c:expr) => {
        if is16($c) { build16($m, $c) } else { build8($m, $c) }
    };
}

macro_rules! tiny565 {
    ($c:expr, $w:expr, $h:expr, $( ($W:literal, $H:literal) ),* ) => {
        match ($w, $h) {
            $( ($W, $H) => both!(Tiny565::<$W, $H>, $c), )*
            _ => panic!("HARNESS: no Tiny565 of that size"),
        }
    };
}
macro_rules! tiny666 {
    ($c:expr, $w:expr, $h:expr, $( ($W:literal, $H:literal) ),* ) => {
        match ($w, $h) {
            $( ($W, $H) => build8(Tiny666::<$W, $H>, $c), )*
            _ => panic!("HARNESS: no Tiny666 of that size"),
        }
    };
}

fn parse_wh(s: &str) -> (u32, u32) {
    let (a, b) = s.split_once('x').expect("HARNESS: WxH");
    (a.parse().unwrap(), b.parse().unwrap())
}

/// framebuffer size and colour type of a model name, taken from the code under test
pub fn model_info(name: &str) -> (u16, u16, &'static str) {
    fn i<M: Model>() -> (u16, u16, &'static str)
    where
        M::ColorFormat: HColor,
    {
        (M::FRAMEBUFFER_SIZE.0, M::FRAMEBUFFER_SIZE.1, <M::ColorFormat as HColor>::NAME)
    }
    match name {
        "gc9107" => i::<GC9107>(),
        "gc9a01" => i::<GC9A01>(),
        "ili9341_565" => i::<ILI9341Rgb565>(),
        "ili9341_666" => i::<ILI9341Rgb666>(),
        "ili9342c_565" => i::<ILI9342CRgb565>(),
        "ili9342c_666" => i::<ILI9342CRgb666>(),
        "ili9486_565" => i::<ILI9486Rgb565>(),
        "ili9486_666" => i::<ILI9486Rgb666>(),
        "ili9488_565" => i::<ILI9488Rgb565>(),
        "ili9488_666" => i::<ILI9488Rgb666>(),
        "rm67162" => i::<RM67162>(),
        "st7735s" => i::<ST7735s>(),
        "st7789" => i::<ST7789>(),
        "st7796" => i::<ST7796>(),
        n if n.starts_with("tiny565_") => {
            let (w, h) = parse_wh(&n[8..]);
            (w as u16, h as u16, "565")
        }
        n if n.starts_with("tiny666_") => {
            let (w, h) = parse_wh(&n[8..]);
            (w as u16, h as u16, "666")
        }
        "tinybgr565_4x3" => (4, 3, "565"),
        _ => (0, 0, "none"),
    }
}

fn build_display(c: &Cfg) -> Built {
    match c.model.as_str() {
        "gc9107" => both!(GC9107, c),
        "gc9a01" => both!(GC9A01, c),
        "ili9341_565" => both!(ILI9341Rgb565, c),
        "ili9341_666" => build8(ILI9341Rgb666, c),
        "ili9342c_565" => both!(ILI9342CRgb565, c),
        "ili9342c_666" => build8(ILI9342CRgb666, c),
        "ili9486_565" => both!(ILI9486Rgb565, c),
        "ili9486_666" => build8(ILI9486Rgb666, c),
        "ili9488_565" => both!(ILI9488Rgb565, c),
        "ili9488_666" => build8(ILI9488Rgb666, c),
        "rm67162" => both!(RM67162, c),
        "st7735s" => both!(ST7735s, c),
        "st7789" => both!(ST7789, c),
        "st7796" => both!(ST7796, c),
        n if n.starts_with("tiny565_") => {
            let (w, h) = parse_wh(&n[8..]);
            tiny565!(
                c, w, h,
                (1, 1), (1, 2), (1, 3), (2, 1), (2, 2), (2, 3), (3, 1), (3, 2), (3, 3), (4, 3),
                (7, 5), (40, 36), (2000, 1), (300, 3), (65535, 65535), (65535, 1), (1, 65535)
            )
        }
        n if n.starts_with("tiny666_") => {
            let (w, h) = parse_wh(&n[8..]);
            tiny666!(c, w, h, (2, 3), (3, 2), (40, 36))
        }
        "tinybgr565_4x3" => both!(TinyBgr565::<4, 3>, c),
        o => panic!("HARNESS: unknown model {o}"),
    }
}

// ---- direct Model::init (kind gates that the type system hides from Builder)

fn model_init_direct(c: &Cfg, x: &mut Map<String, Value>) -> Result<(), ErrInfo> {
    fn go<M: Model>(mut m: M, c: &Cfg, x: &mut Map<String, Value>) -> Result<(), ErrInfo> {
        let mut o = ModelOptions::full_size::<M>();
        o.color_order = color_order(c);
        o.invert_colors = inversion(c);
        o.refresh_order = refresh(c);
        o.orientation = orientation(c);
        if let (Some(w), Some(h)) = (c.w, c.h) {
            o.display_size = (w, h);
        }
        if let (Some(ox), Some(oy)) = (c.ox, c.oy) {
            o.display_offset = (ox, oy);
        }
        let r = match c.iface.as_str() {
            "rec" => m.init(&mut RecInterface::<u8, 0>::new(), &mut RecDelay, &o),
            "rec_p8" => m.init(&mut RecInterface::<u8, 1>::new(), &mut RecDelay, &o),
            "rec_p16" => m.init(&mut RecInterface::<u16, 2>::new(), &mut RecDelay, &o),
            o => panic!("HARNESS: model_init iface {o}"),
        };
        match r {
            Ok(madctl) => {
                let mut b = [0u8; 16];
                let n = madctl.fill_params_buf(&mut b);
                x.insert("madctl".into(), json!(b[..n].to_vec()));
                Ok(())
            }
            Err(ModelInitError::Interface(e)) => {
                let mut i = e.info();
                i.path.insert(0, "Interface".into());
                Err(i)
            }
            Err(ModelInitError::InvalidConfiguration(ce)) => Err(ErrInfo {
                path: vec!["InvalidConfiguration".into(), cfg_err_name(&ce)],
                k: 0,
            }),
        }
    }
    match c.model.as_str() {
        "gc9107" => go(GC9107, c, x),
        "gc9a01" => go(GC9A01, c, x),
        "ili9341_565" => go(ILI9341Rgb565, c, x),
        "ili9341_666" => go(ILI9341Rgb666, c, x),
        "ili9342c_565" => go(ILI9342CRgb565, c, x),
        "ili9342c_666" => go(ILI9342CRgb666, c, x),
        "ili9486_565" => go(ILI9486Rgb565, c, x),
        "ili9486_666" => go(ILI9486Rgb666, c, x),
        "ili9488_565" => go(ILI9488Rgb565, c, x),
        "ili9488_666" => go(ILI9488Rgb666, c, x),
        "rm67162" => go(RM67162, c, x),
        "st7735s" => go(ST7735s, c, x),
        "st7789" => go(ST7789, c, x),
        "st7796" => go(ST7796, c, x),
        o => panic!("HARNESS: model_init model {o}"),
    }
}

fn build_xport(c: &Cfg) -> Box<dyn Ops> {
    match c.iface.as_str() {
        "spi" => Box::new(XportObj(SpiInterface::new(RecSpi, RecPin(PinId::Dc), spi_buffer(c.buf)))),
        "p8" => Box::new(XportObj(ParallelInterface::new(bus8(), RecPin(PinId::Dc), RecPin(PinId::Wr)))),
        "p16" => Box::new(XportObj(ParallelInterface::new(bus16(), RecPin(PinId::Dc), RecPin(PinId::Wr)))),
        "bus8" => Box::new(BusObj(bus8())),
        "bus16" => Box::new(BusObj(bus16())),
        o => panic!("HARNESS: xport iface {o}"),
    }
}

// ------------------------------------------------------------------ running

thread_local! {
    static LAST_PANIC: RefCell<(String, String)> = const { RefCell::new((String::new(), String::new())) };
}

pub fn install_panic_hook() {
    std::panic::set_hook(Box::new(|info| {
        let msg = if let Some(s) = info.payload().downcast_ref::<&str>() {
            s.to_string()
        } else if let Some(s) = info.payload().downcast_ref::<String>() {
            s.clone()
        } else {
            "?".to_string()
        };
        let loc = info
            .location()
            .map(|l| format!("{}:{}", l.file(), l.line()))
            .unwrap_or_default();
        LAST_PANIC.with(|p| *p.borrow_mut() = (msg, loc));
    }));
}

enum CallRes {
    Ok,
    Err(ErrInfo),
    Panic(String, String),
    Budget,
}

fn classify<T>(r: std::thread::Result<Result<T, ErrInfo>>) -> (CallRes, Option<T>) {
    match r {
        Ok(Ok(v)) => (CallRes::Ok, Some(v)),
        Ok(Err(e)) => (CallRes::Err(e), None),
        Err(_) => {
            let (msg, loc) = LAST_PANIC.with(|p| p.borrow().clone());
            if msg.contains(BUDGET_MSG) {
                truncate_for_budget();
                (CallRes::Budget, None)
            } else if msg.starts_with("HARNESS:") {
                eprintln!("harness error: {msg} at {loc}");
                std::process::exit(3);
            } else {
                (CallRes::Panic(msg, loc), None)
            }
        }
    }
}

fn relpath(loc: &str) -> String {
    // keep panic locations stable regardless of where the repository is checked out
    match loc.find("/src/") {
        Some(i) if loc.starts_with("/repo") => loc[i + 1..].to_string(),
        _ => loc.to_string(),
    }
}

#[allow(clippy::too_many_arguments)]
fn emit(
    out: &mut dyn Write,
    id: i64,
    i: usize,
    name: &str,
    args: &Value,
    res: &CallRes,
    obs: Value,
    x: Map<String, Value>,
    ops: (String, u32, u64),
) {
    let (r, err, errk, pmsg, ploc) = match res {
        CallRes::Ok => ("ok", vec![], 0, String::new(), String::new()),
        CallRes::Err(e) => ("err", e.path.clone(), e.k, String::new(), String::new()),
        CallRes::Panic(m, l) => ("panic", vec![], 0, m.clone(), relpath(l)),
        CallRes::Budget => ("budget", vec![], 0, String::new(), String::new()),
    };
    let head = json!({"name":name,"args":args,"res":r,"err":err,"errk":errk,
                      "pmsg":pmsg,"ploc":ploc,"obs":obs,"x":Value::Object(x),"nf":ops.1,"nops":ops.2.min(0x7fff_ffff)});
    let s = serde_json::to_string(&head).unwrap();
    // fixed prefix so that line-oriented tools can classify records without parsing them
    let _ = writeln!(out, "{{\"k\":\"call\",\"id\":{},\"i\":{},{},\"ops\":{}}}", id, i, &s[1..s.len() - 1], ops.0);
}

pub fn run_scenario(sc: &Scenario, out: &mut dyn Write) {
    let c = &sc.cfg;
    let budget = sc.budget.unwrap_or(400_000);
    let kind = match c.model.as_str() {
        "none" => "xport",
        _ if sc.calls.first().and_then(|v| v.get("name")).and_then(|v| v.as_str()) == Some("model_init") => "modelinit",
        _ => "display",
    };
    let (fw, fh, colour) = model_info(&c.model);
    let mut faults: Vec<Fault> = sc.faults.clone();
    if let Some(f) = sc.fault.clone() {
        faults.push(f);
    }
    let scn = json!({"kind":kind,
        "cfg":{"model":c.model,"W":fw,"H":fh,"w":c.w.unwrap_or(fw),"h":c.h.unwrap_or(fh),
               "ox":c.ox.unwrap_or(0),"oy":c.oy.unwrap_or(0),"rot":c.rot,"mir":c.mir,"bgr":c.bgr || c.model.starts_with("tinybgr"),"inv":c.inv,
               "refv":c.refv,"refh":c.refh,"rst":c.rst,"iface":c.iface.trim_end_matches("_ref"),"byref":c.iface.ends_with("_ref"),"buf":c.buf,
               "batch":cfg!(feature = "batch"),"profile": if cfg!(debug_assertions) {"dev"} else {"rel"},
               "colour":colour},
        "faults": faults.iter().map(|f| json!({"call":f.call,"k":f.k,"effect":f.effect})).collect::<Vec<_>>(),
        "tag": sc.tag.clone().unwrap_or(json!("")),
        "ncalls": sc.calls.len()});
    let scn_s = serde_json::to_string(&scn).unwrap();
    let _ = writeln!(out, "{{\"k\":\"scn\",\"id\":{},{}", sc.id, &scn_s[1..]);

    let fault_for = |i: usize| -> (Option<u32>, bool) {
        match faults.iter().find(|f| f.call == i) {
            Some(f) => (Some(f.k), f.effect),
            None => (None, false),
        }
    };

    let mut obj: Option<Box<dyn Ops>> = None;
    if kind == "xport" {
        obj = Some(build_xport(c));
    }
    for (idx, call) in sc.calls.iter().enumerate() {
        let i = idx + 1;
        let name = call.get("name").and_then(|v| v.as_str()).expect("call name").to_string();
        let (fk, fe) = fault_for(i);
        let _ = writeln!(out, "{{\"k\":\"begin\",\"id\":{},\"i\":{}}}", sc.id, i);
        let _ = out.flush();
        begin_call(fk, fe, budget);
        let mut x = Map::new();
        if name == "init" {
            let r = catch_unwind(AssertUnwindSafe(|| build_display(c)));
            let (res, built) = classify(r);
            let ops = end_call();
            let obs = match &built {
                Some(d) => d.obs(),
                None => json!({}),
            };
            obj = built;
            emit(out, sc.id, i, &name, call, &res, obs, x, ops);
            if obj.is_none() {
                break;
            }
        } else if name == "reinit" {
            let old = obj.take().expect("HARNESS: reinit without a display");
            let r = catch_unwind(AssertUnwindSafe(|| old.reinit(c)));
            let (res, built) = classify(r);
            let ops = end_call();
            let obs = match &built {
                Some(d) => d.obs(),
                None => json!({}),
            };
            obj = built;
            emit(out, sc.id, i, &name, call, &res, obs, x, ops);
            if obj.is_none() {
                break;
            }
        } else if name == "model_init" {
            let r = catch_unwind(AssertUnwindSafe(|| model_init_direct(c, &mut x)));
            let (res, _) = classify(r);
            let ops = end_call();
            emit(out, sc.id, i, &name, call, &res, json!({}), x, ops);
        } else {
            let o = obj.as_mut().expect("HARNESS: no object (missing init?)");
            let r = catch_unwind(AssertUnwindSafe(|| o.call(&name, call, &mut x)));
            let (res, _) = classify(r);
            let ops = end_call();
            let obs = match catch_unwind(AssertUnwindSafe(|| o.obs())) {
                Ok(v) => v,
                Err(_) => json!({"obs_panic": true}),
            };
            emit(out, sc.id, i, &name, call, &res, obs, x, ops);
        }
    }
}

pub fn exec(inp: &str, outp: &str) {
    install_panic_hook();
    let f = std::fs::File::open(inp).expect("open scenarios");
    let mut out = std::io::BufWriter::with_capacity(1 << 20, std::fs::File::create(outp).expect("create trace"));
    for line in std::io::BufReader::new(f).lines() {
        let line = line.unwrap();
        if line.trim().is_empty() {
            continue;
        }
        let sc: Scenario = serde_json::from_str(&line).unwrap_or_else(|e| {
            eprintln!("bad scenario line: {e}: {line}");
            std::process::exit(3)
        });
        run_scenario(&sc, &mut out);
    }
    let _ = out.flush();
}
