mod exec;
mod mocks;
mod tables;
mod tiny;

fn main() {
    let a: Vec<String> = std::env::args().collect();
    match a.get(1).map(|s| s.as_str()) {
        Some("exec") => exec::exec(&a[2], &a[3]),
        Some("table") => tables::table(&a[2], &a[3]),
        _ => {
            eprintln!("usage: mvh exec <scenarios.ndjson> <trace.ndjson>");
            std::process::exit(3);
        }
    }
}
