//! Recording / fault-injecting implementations of the embedded-hal traits and of
//! `mipidsi::interface::Interface`.  No oracle lives here: everything is written to the
//! timeline verbatim and judged by the TLA+ trace specification.

use std::cell::RefCell;
use std::fmt::Write as _;

use embedded_hal::delay::DelayNs;
use embedded_hal::digital::{self, OutputPin};
use embedded_hal::spi::{self, Operation, SpiDevice};
use mipidsi::interface::{Interface, InterfaceKind};

/// Shared per-thread timeline: ordered wire operations of the call in flight.
pub struct Timeline {
    /// JSON array body (without the enclosing brackets) of the ops of the current call
    pub buf: String,
    pub n_ops: u64,
    /// number of fallible operations (pin sets, SPI transactions, interface-level ops) so far
    pub n_fallible: u32,
    /// fail the k-th fallible operation of this call (1-based)
    pub fault_at: Option<u32>,
    /// 0: a failing operation does not reach the wire; 1: it does (data pins only)
    pub fault_effect: bool,
    pub budget: u64,
    /// pending strobe-pair run length compression state
    wr_low_pending: bool,
    wr_pairs: u64,
    /// length of `buf` after the first KEEP_ON_BUDGET operations
    trunc_at: usize,
}

/// a call that exhausts its operation budget is recorded with only its first operations
const KEEP_ON_BUDGET: u64 = 400;

impl Timeline {
    const fn new() -> Self {
        Self {
            buf: String::new(),
            n_ops: 0,
            n_fallible: 0,
            fault_at: None,
            fault_effect: false,
            budget: 400_000,
            wr_low_pending: false,
            wr_pairs: 0,
            trunc_at: 0,
        }
    }
}

thread_local! {
    pub static TL: RefCell<Timeline> = const { RefCell::new(Timeline::new()) };
}

pub const BUDGET_MSG: &str = "VERIF_BUDGET_EXHAUSTED";

pub fn begin_call(fault_at: Option<u32>, fault_effect: bool, budget: u64) {
    TL.with(|t| {
        let mut t = t.borrow_mut();
        t.buf.clear();
        t.n_ops = 0;
        t.n_fallible = 0;
        t.fault_at = fault_at;
        t.fault_effect = fault_effect;
        t.budget = budget;
        t.wr_low_pending = false;
        t.wr_pairs = 0;
        t.trunc_at = 0;
    })
}

/// called when the budget was exhausted: keep only the head of the recorded operations
pub fn truncate_for_budget() {
    TL.with(|t| {
        let mut t = t.borrow_mut();
        t.wr_low_pending = false;
        t.wr_pairs = 0;
        if t.trunc_at > 0 {
            let n = t.trunc_at;
            t.buf.truncate(n);
        }
    })
}

/// returns the JSON text of the op array of the call and the number of fallible ops
pub fn end_call() -> (String, u32, u64) {
    TL.with(|t| {
        let mut t = t.borrow_mut();
        flush_wr(&mut t);
        let s = format!("[{}]", t.buf);
        t.fault_at = None;
        (s, t.n_fallible, t.n_ops)
    })
}

fn flush_wr(t: &mut Timeline) {
    // strobe pairs  wr↓ wr↑  with nothing in between are run-length encoded (lossless):
    //   ["wrp", n]  ==  n times (["wr",0,1],["wr",1,1])
    if t.wr_pairs > 0 {
        let n = t.wr_pairs;
        t.wr_pairs = 0;
        if n <= 2 {
            for _ in 0..n {
                push_raw(t, "[\"wr\",0,1],[\"wr\",1,1]");
            }
        } else {
            // counts are split base 65536 so that they stay inside TLC's 32-bit integers
            let s = format!("[\"wrp\",{},{}]", n >> 16, n & 0xFFFF);
            push_raw(t, &s);
        }
    }
    if t.wr_low_pending {
        t.wr_low_pending = false;
        push_raw(t, "[\"wr\",0,1]");
    }
}

fn push_raw(t: &mut Timeline, s: &str) {
    if !t.buf.is_empty() {
        t.buf.push(',');
    }
    t.buf.push_str(s);
}

fn count_op(t: &mut Timeline) {
    t.n_ops += 1;
    if t.n_ops == KEEP_ON_BUDGET + 1 {
        t.trunc_at = t.buf.len();
    }
    if t.n_ops > t.budget {
        // unwinds out of the code under test; recorded as res:"budget"
        panic!("{}", BUDGET_MSG);
    }
}

/// Decide whether the next fallible op fails; returns Some(k) if it does.
fn fallible(t: &mut Timeline) -> Option<u32> {
    t.n_fallible += 1;
    if t.fault_at == Some(t.n_fallible) {
        Some(t.n_fallible)
    } else {
        None
    }
}

// ---------------------------------------------------------------- errors

#[derive(Debug, Clone, Copy, PartialEq, Eq)]
pub struct PinErr(pub u32);
impl digital::Error for PinErr {
    fn kind(&self) -> digital::ErrorKind {
        digital::ErrorKind::Other
    }
}

#[derive(Debug, Clone, Copy, PartialEq, Eq)]
pub struct SpiErr(pub u32);
impl spi::Error for SpiErr {
    fn kind(&self) -> spi::ErrorKind {
        spi::ErrorKind::Other
    }
}

#[derive(Debug, Clone, Copy, PartialEq, Eq)]
pub struct RecErr(pub u32);

// ---------------------------------------------------------------- pins

#[derive(Debug, Clone, Copy, PartialEq, Eq)]
pub enum PinId {
    Dc,
    Wr,
    Rst,
    D(u8),
}

pub struct RecPin(pub PinId);

impl digital::ErrorType for RecPin {
    type Error = PinErr;
}

impl RecPin {
    fn set(&mut self, level: u8) -> Result<(), PinErr> {
        TL.with(|t| {
            let mut t = t.borrow_mut();
            count_op(&mut t);
            let failed = fallible(&mut t);
            let ok: u8 = match failed {
                None => 1,
                Some(_) => {
                    if t.fault_effect && matches!(self.0, PinId::D(_)) {
                        2
                    } else {
                        0
                    }
                }
            };
            // WR strobe run-length encoding (only for successful ops)
            if self.0 == PinId::Wr && ok == 1 {
                if level == 0 && !t.wr_low_pending {
                    t.wr_low_pending = true;
                    return Ok(());
                }
                if level == 1 && t.wr_low_pending {
                    t.wr_low_pending = false;
                    t.wr_pairs += 1;
                    return Ok(());
                }
            }
            flush_wr(&mut t);
            let s = match self.0 {
                PinId::Dc => format!("[\"dc\",{level},{ok}]"),
                PinId::Wr => format!("[\"wr\",{level},{ok}]"),
                PinId::Rst => format!("[\"rst\",{level},{ok}]"),
                PinId::D(i) => format!("[\"d\",{i},{level},{ok}]"),
            };
            push_raw(&mut t, &s);
            match failed {
                None => Ok(()),
                Some(k) => Err(PinErr(k)),
            }
        })
    }
}

impl OutputPin for RecPin {
    fn set_low(&mut self) -> Result<(), PinErr> {
        self.set(0)
    }
    fn set_high(&mut self) -> Result<(), PinErr> {
        self.set(1)
    }
}

// ---------------------------------------------------------------- SPI

pub struct RecSpi;

impl spi::ErrorType for RecSpi {
    type Error = SpiErr;
}

fn bytes_json(out: &mut String, b: &[u8]) {
    out.push('[');
    for (i, x) in b.iter().enumerate() {
        if i > 0 {
            out.push(',');
        }
        let _ = write!(out, "{x}");
    }
    out.push(']');
}

impl SpiDevice<u8> for RecSpi {
    fn transaction(&mut self, operations: &mut [Operation<'_, u8>]) -> Result<(), SpiErr> {
        TL.with(|t| {
            let mut t = t.borrow_mut();
            count_op(&mut t);
            flush_wr(&mut t);
            let failed = fallible(&mut t);
            // a failing transaction delivers nothing, or (fault "effect") the first half of its bytes
            let partial = failed.is_some() && t.fault_effect;
            let ok = if failed.is_none() { 1 } else if partial { 3 } else { 0 };
            let mut s = String::new();
            if operations.len() == 1 {
                if let Operation::Write(b) = &operations[0] {
                    s.push_str("[\"spi\",");
                    if partial {
                        bytes_json(&mut s, &b[..b.len() / 2]);
                    } else {
                        bytes_json(&mut s, b);
                    }
                    let _ = write!(s, ",{ok}]");
                }
            }
            if s.is_empty() {
                s.push_str("[\"spitx\",[");
                for (i, op) in operations.iter().enumerate() {
                    if i > 0 {
                        s.push(',');
                    }
                    match op {
                        Operation::Write(b) => {
                            s.push_str("[\"w\",");
                            bytes_json(&mut s, b);
                            s.push(']');
                        }
                        Operation::Read(b) => {
                            let _ = write!(s, "[\"r\",{}]", b.len());
                        }
                        Operation::Transfer(r, w) => {
                            let _ = write!(s, "[\"t\",{},", r.len());
                            bytes_json(&mut s, w);
                            s.push(']');
                        }
                        Operation::TransferInPlace(b) => {
                            s.push_str("[\"ti\",");
                            bytes_json(&mut s, b);
                            s.push(']');
                        }
                        Operation::DelayNs(n) => {
                            let _ = write!(s, "[\"dl\",{},{}]", n / 1000, n % 1000);
                        }
                    }
                }
                let _ = write!(s, "],{ok}]");
            }
            push_raw(&mut t, &s);
            match failed {
                None => Ok(()),
                Some(k) => Err(SpiErr(k)),
            }
        })
    }
}

// ---------------------------------------------------------------- delay

pub struct RecDelay;

impl DelayNs for RecDelay {
    fn delay_ns(&mut self, ns: u32) {
        TL.with(|t| {
            let mut t = t.borrow_mut();
            count_op(&mut t);
            flush_wr(&mut t);
            let s = format!("[\"dly\",{},{}]", ns / 1000, ns % 1000);
            push_raw(&mut t, &s);
        })
    }
}

// ---------------------------------------------------------------- interface-level recorder

pub trait HWord: Copy + Eq + 'static {
    fn from_u64(v: u64) -> Self;
    fn to_u64(self) -> u64;
}
impl HWord for u8 {
    fn from_u64(v: u64) -> Self {
        v as u8
    }
    fn to_u64(self) -> u64 {
        self as u64
    }
}
impl HWord for u16 {
    fn from_u64(v: u64) -> Self {
        v as u16
    }
    fn to_u64(self) -> u64 {
        self as u64
    }
}

/// `Interface` that records the interface-level calls.  K: 0 serial, 1 parallel-8, 2 parallel-16
pub struct RecInterface<W, const K: u8>(pub core::marker::PhantomData<W>);

impl<W, const K: u8> RecInterface<W, K> {
    pub fn new() -> Self {
        Self(core::marker::PhantomData)
    }
}

impl<W: HWord, const K: u8> Interface for RecInterface<W, K> {
    type Word = W;
    type Error = RecErr;
    const KIND: InterfaceKind = match K {
        0 => InterfaceKind::Serial4Line,
        1 => InterfaceKind::Parallel8Bit,
        _ => InterfaceKind::Parallel16Bit,
    };

    fn send_command(&mut self, command: u8, args: &[u8]) -> Result<(), RecErr> {
        TL.with(|t| {
            let mut t = t.borrow_mut();
            count_op(&mut t);
            let failed = fallible(&mut t);
            let ok = if failed.is_none() { 1 } else { 0 };
            let mut s = format!("[\"cmd\",{command},");
            bytes_json(&mut s, args);
            let _ = write!(s, ",{ok}]");
            push_raw(&mut t, &s);
            match failed {
                None => Ok(()),
                Some(k) => Err(RecErr(k)),
            }
        })
    }

    fn send_pixels<const N: usize>(
        &mut self,
        pixels: impl IntoIterator<Item = [W; N]>,
    ) -> Result<(), RecErr> {
        // the iterator is user code: it must not run while the timeline is borrowed
        let mut s = String::from("[\"px\",[");
        let mut first = true;
        let mut n: u64 = 0;
        let budget = TL.with(|t| t.borrow().budget);
        for px in pixels {
            for w in px {
                if !first {
                    s.push(',');
                }
                first = false;
                let _ = write!(s, "{}", w.to_u64());
            }
            n += 1;
            if n > budget {
                panic!("{}", BUDGET_MSG);
            }
        }
        TL.with(|t| {
            let mut t = t.borrow_mut();
            count_op(&mut t);
            let failed = fallible(&mut t);
            let ok = if failed.is_none() { 1 } else { 0 };
            let _ = write!(s, "],{N},{ok}]");
            push_raw(&mut t, &s);
            match failed {
                None => Ok(()),
                Some(k) => Err(RecErr(k)),
            }
        })
    }

    fn send_repeated_pixel<const N: usize>(&mut self, pixel: [W; N], count: u32) -> Result<(), RecErr> {
        TL.with(|t| {
            let mut t = t.borrow_mut();
            count_op(&mut t);
            let failed = fallible(&mut t);
            let ok = if failed.is_none() { 1 } else { 0 };
            let mut s = String::from("[\"rep\",[");
            for (i, w) in pixel.iter().enumerate() {
                if i > 0 {
                    s.push(',');
                }
                let _ = write!(s, "{}", w.to_u64());
            }
            let _ = write!(s, "],{},{},{ok}]", count >> 16, count & 0xFFFF);
            push_raw(&mut t, &s);
            match failed {
                None => Ok(()),
                Some(k) => Err(RecErr(k)),
            }
        })
    }
}
