//! Tables of the pure functions of the crate, one NDJSON row per evaluation:
//!   {"k":"fn","f":<name>,"in":[...],"out":[...]}
//! Rows are judged by spec/TraceFn.tla.  `in` comes from a request file so that the cases are chosen
//! (and seeded) by the check driver, not here.

use std::io::{BufRead, Write};
use std::panic::{catch_unwind, AssertUnwindSafe};

use embedded_graphics_core::draw_target::DrawTarget;
use embedded_graphics_core::geometry::{Dimensions, OriginDimensions, Point, Size};
use embedded_graphics_core::primitives::Rectangle;
use embedded_graphics_core::pixelcolor::{Rgb565, Rgb666, Rgb888, RgbColor};
use embedded_graphics_core::prelude::{Drawable, IntoStorage, Pixel};
use mipidsi::dcs::*;
use mipidsi::interface::InterfacePixelFormat;
use mipidsi::options::*;
use mipidsi::TestImage;
use serde_json::{json, Value};

use crate::exec::{rot_index, HColor};
use crate::mocks::*;

fn rotation_of(r: i64) -> Rotation {
    match r {
        0 => Rotation::Deg0,
        1 => Rotation::Deg90,
        2 => Rotation::Deg180,
        _ => Rotation::Deg270,
    }
}
fn orient(v: &Value) -> Orientation {
    Orientation { rotation: rotation_of(v[0].as_i64().unwrap()), mirrored: v[1].as_bool().unwrap() }
}
fn orient_json(o: Orientation) -> Value {
    json!([rot_index(o.rotation), o.mirrored])
}
fn color_order(b: &Value) -> ColorOrder {
    if b.as_bool().unwrap() { ColorOrder::Bgr } else { ColorOrder::Rgb }
}
fn refresh(v: &Value, h: &Value) -> RefreshOrder {
    RefreshOrder::new(
        if v.as_i64().unwrap() != 0 { VerticalRefreshOrder::BottomToTop } else { VerticalRefreshOrder::TopToBottom },
        if h.as_i64().unwrap() != 0 { HorizontalRefreshOrder::RightToLeft } else { HorizontalRefreshOrder::LeftToRight },
    )
}

/// instruction, returned length, the whole 16-byte buffer after fill_params_buf on a pre-filled buffer
fn cmd_row(c: &impl DcsCommand, prefill: u8) -> Value {
    let mut b = [prefill; 16];
    let n = c.fill_params_buf(&mut b);
    json!([c.instruction(), n, b.to_vec()])
}

fn madctl_start(v: &Value) -> SetAddressMode {
    // [bgr, rot, mir, refv, refh]
    SetAddressMode::new(color_order(&v[0]), orient(&json!([v[1], v[2]])), refresh(&v[3], &v[4]))
}

fn te_of(s: &str) -> TearingEffect {
    match s {
        "v" => TearingEffect::Vertical,
        "hv" => TearingEffect::HorizontalAndVertical,
        _ => TearingEffect::Off,
    }
}
fn bpp_of(v: i64) -> BitsPerPixel {
    match v {
        3 => BitsPerPixel::Three,
        8 => BitsPerPixel::Eight,
        12 => BitsPerPixel::Twelve,
        16 => BitsPerPixel::Sixteen,
        18 => BitsPerPixel::Eighteen,
        _ => BitsPerPixel::TwentyFour,
    }
}

/// a DCS command by name and arguments: row = [instruction, n, buffer] for prefill, plus what write_command puts on the bus
fn dcs_rows(name: &str, a: &[Value], prefill: u8) -> Value {
    fn both(c: impl DcsCommand + Clone, prefill: u8) -> Value {
        let row = cmd_row(&c, prefill);
        begin_call(None, false, 1000);
        let mut di = RecInterface::<u8, 0>::new();
        let r = di.write_command(c);
        let (ops, _, _) = end_call();
        json!([row, r.is_ok(), serde_json::from_str::<Value>(&ops).unwrap()])
    }
    #[derive(Clone)]
    struct W<T>(T);
    macro_rules! basic {
        ($t:ident) => {{
            struct L;
            impl DcsCommand for L {
                fn instruction(&self) -> u8 {
                    $t.instruction()
                }
                fn fill_params_buf(&self, b: &mut [u8]) -> usize {
                    $t.fill_params_buf(b)
                }
            }
            impl Clone for L {
                fn clone(&self) -> Self {
                    L
                }
            }
            both(L, prefill)
        }};
    }
    let _ = W(0);
    let u = |i: usize| a[i].as_u64().unwrap() as u16;
    match name {
        "SoftReset" => basic!(SoftReset),
        "EnterSleepMode" => basic!(EnterSleepMode),
        "ExitSleepMode" => basic!(ExitSleepMode),
        "EnterPartialMode" => basic!(EnterPartialMode),
        "EnterNormalMode" => basic!(EnterNormalMode),
        "SetDisplayOff" => basic!(SetDisplayOff),
        "SetDisplayOn" => basic!(SetDisplayOn),
        "ExitIdleMode" => basic!(ExitIdleMode),
        "EnterIdleMode" => basic!(EnterIdleMode),
        "WriteMemoryStart" => basic!(WriteMemoryStart),
        "SetColumnAddress" => both(SetColumnAddress::new(u(0), u(1)), prefill),
        "SetPageAddress" => both(SetPageAddress::new(u(0), u(1)), prefill),
        "SetScrollArea" => both(SetScrollArea::new(u(0), u(1), u(2)), prefill),
        "SetScrollStart" => both(SetScrollStart::new(u(0)), prefill),
        "SetTearingEffect" => both(SetTearingEffect::new(te_of(a[0].as_str().unwrap())), prefill),
        "SetInvertMode" => both(
            SetInvertMode::new(if a[0].as_bool().unwrap() { ColorInversion::Inverted } else { ColorInversion::Normal }),
            prefill,
        ),
        "SetPixelFormat" => both(
            SetPixelFormat::new(PixelFormat::new(bpp_of(a[0].as_i64().unwrap()), bpp_of(a[1].as_i64().unwrap()))),
            prefill,
        ),
        "SetPixelFormatAll" => both(SetPixelFormat::new(PixelFormat::with_all(bpp_of(a[0].as_i64().unwrap()))), prefill),
        "SetAddressMode" => both(madctl_start(&Value::Array(a.to_vec())), prefill),
        _ => panic!("HARNESS: unknown dcs command {name}"),
    }
}

fn colours_row<C>(words16: bool, c0: u32, n: u32, repeat: bool) -> Value
where
    C: HColor + InterfacePixelFormat<u8>,
{
    let _ = words16;
    begin_call(None, false, 10_000_000);
    let mut di = RecInterface::<u8, 0>::new();
    if repeat {
        for i in 0..n {
            let _ = C::send_repeated_pixel(&mut di, C::from_raw(c0 + i), 3);
        }
    } else {
        let _ = C::send_pixels(&mut di, (0..n).map(|i| C::from_raw(c0 + i)));
    }
    let (ops, _, _) = end_call();
    serde_json::from_str::<Value>(&ops).unwrap()
}

fn colours_row16(c0: u32, n: u32, repeat: bool) -> Value {
    begin_call(None, false, 10_000_000);
    let mut di = RecInterface::<u16, 2>::new();
    if repeat {
        for i in 0..n {
            let _ = <Rgb565 as InterfacePixelFormat<u16>>::send_repeated_pixel(&mut di, Rgb565::from_raw(c0 + i), 3);
        }
    } else {
        let _ = <Rgb565 as InterfacePixelFormat<u16>>::send_pixels(&mut di, (0..n).map(|i| Rgb565::from_raw(c0 + i)));
    }
    let (ops, _, _) = end_call();
    serde_json::from_str::<Value>(&ops).unwrap()
}

// ---- clipping framebuffer for the test image (C19)

struct Canvas<C> {
    w: u32,
    h: u32,
    /// top-left corner of the bounding box: a DrawTarget only needs `Dimensions`, its box need not start at (0, 0)
    ox: i32,
    oy: i32,
    px: Vec<u32>, // 0xFFFFFFFF = untouched
    _c: core::marker::PhantomData<C>,
}
impl<C: RgbColor + IntoStorage<Storage = S>, S: Into<u32>> Dimensions for Canvas<C> {
    fn bounding_box(&self) -> Rectangle {
        Rectangle::new(Point::new(self.ox, self.oy), Size::new(self.w, self.h))
    }
}
impl<C: RgbColor + IntoStorage<Storage = S>, S: Into<u32>> DrawTarget for Canvas<C> {
    type Color = C;
    type Error = core::convert::Infallible;
    fn draw_iter<I: IntoIterator<Item = Pixel<C>>>(&mut self, pixels: I) -> Result<(), Self::Error> {
        for Pixel(p, c) in pixels {
            let p = Point::new(p.x.wrapping_sub(self.ox), p.y.wrapping_sub(self.oy));
            if p.x >= 0 && p.y >= 0 && (p.x as u32) < self.w && (p.y as u32) < self.h {
                let i = p.y as usize * self.w as usize + p.x as usize;
                self.px[i] = c.into_storage().into();
            }
        }
        Ok(())
    }
}

fn rle(row: &[u32]) -> Value {
    let mut out = vec![];
    let mut i = 0;
    while i < row.len() {
        let mut j = i;
        while j < row.len() && row[j] == row[i] {
            j += 1;
        }
        // colours as class codes: see classify()
        out.push(json!([row[i], j - i]));
        i = j;
    }
    Value::Array(out)
}

/// colour classes: 0 black, 1 white, 2 red, 3 green, 4 blue, 5 other, 9 untouched
fn classify<C: RgbColor + IntoStorage<Storage = S>, S: Into<u32>>(v: u32) -> u32 {
    let s = |c: C| -> u32 { c.into_storage().into() };
    if v == 0xFFFF_FFFF {
        9
    } else if v == s(C::BLACK) {
        0
    } else if v == s(C::WHITE) {
        1
    } else if v == s(C::RED) {
        2
    } else if v == s(C::GREEN) {
        3
    } else if v == s(C::BLUE) {
        4
    } else {
        5
    }
}

fn testimage_row<C: RgbColor + IntoStorage<Storage = S>, S: Into<u32>>(w: u32, h: u32, ox: i32, oy: i32) -> Value {
    let mut cv = Canvas::<C> { w, h, ox, oy, px: vec![0xFFFF_FFFF; (w * h) as usize], _c: core::marker::PhantomData };
    let r = catch_unwind(AssertUnwindSafe(|| TestImage::<C>::new().draw(&mut cv)));
    let res = if r.is_ok() { "ok" } else { "panic" };
    let classes: Vec<u32> = cv.px.iter().map(|v| classify::<C, S>(*v)).collect();
    let rows: Vec<Value> = (0..h as usize).map(|y| rle(&classes[y * w as usize..(y + 1) * w as usize])).collect();
    json!([res, rows])
}

pub fn eval(f: &str, a: &Value) -> Value {
    let arr = a.as_array().cloned().unwrap_or_default();
    match f {
        // ---- C14
        "madctl.new" => cmd_row(&madctl_start(a), 0xA5),
        "madctl.from_options" => {
            let mut o = ModelOptions::with_all((1, 1), (0, 0));
            o.color_order = color_order(&a[0]);
            o.orientation = orient(&json!([a[1], a[2]]));
            o.refresh_order = refresh(&a[3], &a[4]);
            cmd_row(&SetAddressMode::from(&o), 0x5A)
        }
        "madctl.seq" => {
            // in = [start, [[setter, args..]..]]
            let mut m = madctl_start(&a[0]);
            for st in a[1].as_array().unwrap() {
                m = match st[0].as_str().unwrap() {
                    "color" => m.with_color_order(color_order(&st[1])),
                    "orient" => m.with_orientation(orient(&json!([st[1], st[2]]))),
                    "refresh" => m.with_refresh_order(refresh(&st[1], &st[2])),
                    o => panic!("HARNESS: setter {o}"),
                };
            }
            cmd_row(&m, 0xA5)
        }
        // ---- C15
        "orient.word" => {
            // in = [[rot, mir], [[op, arg]..]]
            let mut o = orient(&a[0]);
            for st in a[1].as_array().unwrap() {
                o = match st[0].as_str().unwrap() {
                    "rot" => o.rotate(rotation_of(st[1].as_i64().unwrap())),
                    "fh" => o.flip_horizontal(),
                    "fv" => o.flip_vertical(),
                    x => panic!("HARNESS: orientation op {x}"),
                };
            }
            orient_json(o)
        }
        "rotation.try_from_degree" => match Rotation::try_from_degree(a[0].as_i64().unwrap() as i32) {
            Ok(r) => json!([rot_index(r) as i64]),
            Err(_) => json!([-1]),
        },
        "rotation.degree" => {
            let r = rotation_of(a[0].as_i64().unwrap());
            json!([r.degree(), r.is_horizontal(), r.is_vertical()])
        }
        "refresh.flip" => {
            // in = [v, h, [ops..]]   ops: "fv" | "fh"
            let mut r = refresh(&a[0], &a[1]);
            for op in a[2].as_array().unwrap() {
                r = match op.as_str().unwrap() {
                    "fv" => r.flip_vertical(),
                    _ => r.flip_horizontal(),
                };
            }
            json!([matches!(r.vertical, VerticalRefreshOrder::BottomToTop) as u8, matches!(r.horizontal, HorizontalRefreshOrder::RightToLeft) as u8])
        }
        "mock.display" => {
            // the doc-test helper builds a working display
            let d = mipidsi::_mock::new_mock_display();
            let s = d.size();
            json!([rot_index(d.orientation().rotation), d.orientation().mirrored, s.width, s.height, d.is_sleeping()])
        }
        "rotation.all_angles" => {
            // the whole i32 range (or a strided part of it) against the 360-entry residue table given in `in`
            // in = [table(360 entries: 0..3 or -1), stride, offset]
            let table: Vec<i64> = a[0].as_array().unwrap().iter().map(|v| v.as_i64().unwrap()).collect();
            let stride = a[1].as_i64().unwrap();
            let off = a[2].as_i64().unwrap();
            let mut mism: u64 = 0;
            let mut first: i64 = 0;
            let mut n: u64 = 0;
            let r = catch_unwind(AssertUnwindSafe(|| {
                let mut x: i64 = i32::MIN as i64 + off;
                while x <= i32::MAX as i64 {
                    let got = match Rotation::try_from_degree(x as i32) {
                        Ok(r) => rot_index(r) as i64,
                        Err(_) => -1,
                    };
                    if got != table[(x as i32).rem_euclid(360) as usize] {
                        if mism == 0 {
                            first = x;
                        }
                        mism += 1;
                    }
                    n += 1;
                    x += stride;
                }
            }));
            json!([if r.is_ok() { "ok" } else { "panic" }, (n >> 16), (n & 0xFFFF), mism.min(0x7fff_ffff), first])
        }
        // ---- C18
        "dcs" => json!([dcs_rows(a[0].as_str().unwrap(), &arr[1..], 0xA5), dcs_rows(a[0].as_str().unwrap(), &arr[1..], 0x5A)]),
        "dcs.write_raw" => {
            let p: Vec<u8> = a[1].as_array().unwrap().iter().map(|v| v.as_u64().unwrap() as u8).collect();
            begin_call(None, false, 1000);
            let mut di = RecInterface::<u8, 0>::new();
            let r = di.write_raw(a[0].as_u64().unwrap() as u8, &p);
            let (ops, _, _) = end_call();
            json!([r.is_ok(), serde_json::from_str::<Value>(&ops).unwrap()])
        }
        "pixelformat.as_u8" => json!([PixelFormat::new(bpp_of(a[0].as_i64().unwrap()), bpp_of(a[1].as_i64().unwrap())).as_u8()]),
        "bpp.from_rgb_color" => json!([
            BitsPerPixel::from_rgb_color::<Rgb565>() as u8,
            BitsPerPixel::from_rgb_color::<Rgb666>() as u8,
            BitsPerPixel::from_rgb_color::<Rgb888>() as u8
        ]),
        // ---- C05: in = [c0, n]
        "colour.565x8" => colours_row::<Rgb565>(false, a[0].as_u64().unwrap() as u32, a[1].as_u64().unwrap() as u32, false),
        "colour.565x8.rep" => colours_row::<Rgb565>(false, a[0].as_u64().unwrap() as u32, a[1].as_u64().unwrap() as u32, true),
        "colour.666x8" => colours_row::<Rgb666>(false, a[0].as_u64().unwrap() as u32, a[1].as_u64().unwrap() as u32, false),
        "colour.666x8.rep" => colours_row::<Rgb666>(false, a[0].as_u64().unwrap() as u32, a[1].as_u64().unwrap() as u32, true),
        "colour.565x16" => colours_row16(a[0].as_u64().unwrap() as u32, a[1].as_u64().unwrap() as u32, false),
        "colour.565x16.rep" => colours_row16(a[0].as_u64().unwrap() as u32, a[1].as_u64().unwrap() as u32, true),
        // ---- C19: in = [colour type, w, h]
        "testimage" => {
            let (w, h) = (a[1].as_u64().unwrap() as u32, a[2].as_u64().unwrap() as u32);
            // optional: top-left corner of the target's bounding box
            let ox = a.get(3).and_then(|v| v.as_i64()).unwrap_or(0) as i32;
            let oy = a.get(4).and_then(|v| v.as_i64()).unwrap_or(0) as i32;
            match a[0].as_str().unwrap() {
                "565" => testimage_row::<Rgb565, u16>(w, h, ox, oy),
                "666" => testimage_row::<Rgb666, u32>(w, h, ox, oy),
                _ => testimage_row::<Rgb888, u32>(w, h, ox, oy),
            }
        }
        _ => panic!("HARNESS: unknown table function {f}"),
    }
}

pub fn table(inp: &str, outp: &str) {
    crate::exec::install_panic_hook();
    let f = std::fs::File::open(inp).expect("open requests");
    let mut out = std::io::BufWriter::with_capacity(1 << 20, std::fs::File::create(outp).expect("create table"));
    for line in std::io::BufReader::new(f).lines() {
        let line = line.unwrap();
        if line.trim().is_empty() {
            continue;
        }
        let req: Value = serde_json::from_str(&line).expect("request json");
        let fname = req["f"].as_str().unwrap().to_string();
        let r = catch_unwind(AssertUnwindSafe(|| eval(&fname, &req["in"])));
        let row = match r {
            Ok(v) => json!({"f": fname, "in": req["in"], "res": "ok", "out": v}),
            Err(_) => json!({"f": fname, "in": req["in"], "res": "panic", "out": []}),
        };
        let s = serde_json::to_string(&row).unwrap();
        let _ = writeln!(out, "{{\"k\":\"fn\",{}", &s[1..]);
    }
    let _ = out.flush();
}
