//! External `Model` implementations with tiny (and extreme) framebuffers, so that the small-scope
//! programs TLC enumerates run unchanged on the real `Display` code.

use embedded_graphics_core::pixelcolor::{Rgb565, Rgb666};
use embedded_hal::delay::DelayNs;
use mipidsi::dcs::{
    BitsPerPixel, ExitSleepMode, InterfaceExt, PixelFormat, SetAddressMode, SetDisplayOn,
    SetInvertMode, SetPixelFormat,
};
use mipidsi::interface::Interface;
use mipidsi::models::{Model, ModelInitError};
use mipidsi::options::ModelOptions;

pub struct Tiny565<const W: u16, const H: u16>;
pub struct Tiny666<const W: u16, const H: u16>;

fn tiny_init<DELAY: DelayNs, DI: Interface>(
    di: &mut DI,
    delay: &mut DELAY,
    options: &ModelOptions,
    bpp: BitsPerPixel,
) -> Result<SetAddressMode, ModelInitError<DI::Error>> {
    let madctl = SetAddressMode::from(options);
    delay.delay_us(5_000);
    di.write_command(ExitSleepMode)?;
    delay.delay_us(120_000);
    di.write_command(madctl)?;
    di.write_command(SetInvertMode::new(options.invert_colors))?;
    di.write_command(SetPixelFormat::new(PixelFormat::with_all(bpp)))?;
    di.write_command(SetDisplayOn)?;
    Ok(madctl)
}

impl<const W: u16, const H: u16> Model for Tiny565<W, H> {
    type ColorFormat = Rgb565;
    const FRAMEBUFFER_SIZE: (u16, u16) = (W, H);
    fn init<DELAY: DelayNs, DI: Interface>(
        &mut self,
        di: &mut DI,
        delay: &mut DELAY,
        options: &ModelOptions,
    ) -> Result<SetAddressMode, ModelInitError<DI::Error>> {
        tiny_init(di, delay, options, BitsPerPixel::Sixteen)
    }
}

impl<const W: u16, const H: u16> Model for Tiny666<W, H> {
    type ColorFormat = Rgb666;
    const FRAMEBUFFER_SIZE: (u16, u16) = (W, H);
    fn init<DELAY: DelayNs, DI: Interface>(
        &mut self,
        di: &mut DI,
        delay: &mut DELAY,
        options: &ModelOptions,
    ) -> Result<SetAddressMode, ModelInitError<DI::Error>> {
        tiny_init(di, delay, options, BitsPerPixel::Eighteen)
    }
}

/// An external model that programs its own colour order: it forces BGR whatever the options say and returns the
/// address mode it actually sent (as the `Model` contract asks), so the value `Display` keeps for run-time updates
/// differs from `SetAddressMode::from(options)`.
pub struct TinyBgr565<const W: u16, const H: u16>;

impl<const W: u16, const H: u16> Model for TinyBgr565<W, H> {
    type ColorFormat = Rgb565;
    const FRAMEBUFFER_SIZE: (u16, u16) = (W, H);
    fn init<DELAY: DelayNs, DI: Interface>(
        &mut self,
        di: &mut DI,
        delay: &mut DELAY,
        options: &ModelOptions,
    ) -> Result<SetAddressMode, ModelInitError<DI::Error>> {
        let madctl = SetAddressMode::from(options).with_color_order(mipidsi::options::ColorOrder::Bgr);
        delay.delay_us(5_000);
        di.write_command(ExitSleepMode)?;
        delay.delay_us(120_000);
        di.write_command(madctl)?;
        di.write_command(SetInvertMode::new(options.invert_colors))?;
        di.write_command(SetPixelFormat::new(PixelFormat::with_all(BitsPerPixel::Sixteen)))?;
        di.write_command(SetDisplayOn)?;
        Ok(madctl)
    }
}
