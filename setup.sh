#!/bin/sh
# Build the verification framework from files on disk only (offline).
cd "$(dirname "$0")" || exit 1
echo "[setup] start in $(pwd) as $(id -un); PATH=$PATH"
export CARGO_NET_OFFLINE=true
mkdir -p work evidence replays
echo "[setup] cargo: $(command -v cargo)  tlc: $(command -v tlc)  tla-sany: $(command -v tla-sany)"
(cd harness && cargo build --offline --quiet --features batch --target-dir target-batch) || { echo "[setup] harness (batch) build failed"; exit 1; }
(cd harness && cargo build --offline --quiet --target-dir target-nobatch) || { echo "[setup] harness (no batch) build failed"; exit 1; }
(cd harness && cargo build --offline --quiet --features batch --profile rel --target-dir target-batch) || { echo "[setup] harness (batch, release-like profile) build failed"; exit 1; }
for m in Trace TraceFn; do
  (cd spec && tla-sany "$m.tla" >/dev/null 2>&1) || { echo "[setup] spec/$m.tla does not parse"; (cd spec && tla-sany "$m.tla" 2>&1 | grep -v "^Parsing\|^Semantic\|^Linting" | tail -15); exit 1; }
done
echo "[setup] ok"
