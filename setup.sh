#!/bin/sh
# Build the verification framework from files on disk only (offline).
set -e
cd "$(dirname "$0")"
export CARGO_NET_OFFLINE=true
mkdir -p work evidence replays
(cd harness && cargo build --offline --quiet --features batch --target-dir target-batch)
(cd harness && cargo build --offline --quiet --target-dir target-nobatch)
for m in spec/Trace.tla spec/TraceFn.tla; do
  tla-sany "$m" >/dev/null
done
echo "setup ok"
