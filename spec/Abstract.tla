------------------------------ MODULE Abstract ------------------------------
(***************************************************************************)
(* The WHAT of every public driver call: its required effect on the        *)
(* far-side state (framebuffer picture, registers), written from the       *)
(* property statements only -- last write wins, discard what is outside    *)
(* the bounding box, colour k on point k.                                  *)
(***************************************************************************)
EXTENDS Integers, Sequences, FiniteSets, TLC, Geometry, Dcs

PMerge(new, old) ==
  IF DOMAIN old = {} THEN new ELSE
  LET dn == DOMAIN new IN [c \in dn \cup DOMAIN old |-> IF c \in dn THEN new[c] ELSE old[c]]

ColourMod(cfg) == IF cfg.colour = "565" THEN 65536 ELSE 262144
Colour(cfg, v) == v % ColourMod(cfg)

InitVerdict(cfg) ==
  IF cfg.w = 0 \/ cfg.h = 0 \/ cfg.w > cfg.W \/ cfg.h > cfg.H THEN "InvalidDisplaySize"
  ELSE IF cfg.ox + cfg.w > cfg.W \/ cfg.oy + cfg.h > cfg.H THEN "InvalidDisplayOffset"
  ELSE "ok"

\* px : sequence of <<x, y, colour>> with arbitrary coordinates; painted in order, last write wins,
\* everything outside the bounding box is dropped
APaint(img, cfg, o, px) ==
  LET vis == {i \in 1 .. Len(px) : InBox(cfg, o, px[i][1], px[i][2])}
      CellI(i) == Place(cfg, o, px[i][1], px[i][2])
      cells == {CellI(i) : i \in vis}
      LastW(c) == CHOOSE i \in vis : CellI(i) = c /\ \A j \in vis : j > i => CellI(j) # c
  IN  IF vis = {} THEN img ELSE PMerge([c \in cells |-> Colour(cfg, px[LastW(c)][3])], img)

AllInBox(cfg, o, px) == \A i \in 1 .. Len(px) : InBox(cfg, o, px[i][1], px[i][2])
NumInBox(cfg, o, px) == Cardinality({i \in 1 .. Len(px) : InBox(cfg, o, px[i][1], px[i][2])})

AFillSolid(img, cfg, o, r, col) ==
  LET s == LogicalSize(cfg, o)
      cr == RClip(r, s[1], s[2])
  IN IF REmpty(cr) THEN img
     ELSE PMerge([c \in {Place(cfg, o, x, y) : x \in cr[1] .. RRight(cr), y \in cr[2] .. RBottom(cr)}
             |-> Colour(cfg, col)], img)

\* k-th colour (k from 0) of the stream  start, start+1, ...  of length len (len < 0: unbounded)
\* goes to the k-th point of r in row-major order, if that point is visible
KBelow(dy, rw, dx, len) ==     \* dy*rw + dx < len  without leaving 32-bit integers
  len < 0 \/ (dy <= len \div rw /\ dy * rw < len - dx)
AFillContig(img, cfg, o, r, start, len) ==
  LET s == LogicalSize(cfg, o)
      cr == RClip(r, s[1], s[2])
  IN IF REmpty(cr) THEN img ELSE
     LET pts == {p \in (cr[1] .. RRight(cr)) \X (cr[2] .. RBottom(cr)) :
                    KBelow(p[2] - r[2], r[3], p[1] - r[1], len)}
         K(p) == (p[2] - r[2]) * r[3] + (p[1] - r[1])
     IN IF pts = {} THEN img
        ELSE PMerge([c \in {Place(cfg, o, p[1], p[2]) : p \in pts} |->
                LET p == PlaceInv(cfg, o, c) IN Colour(cfg, start + K(p))], img)
RectInBox(cfg, o, r) ==
  LET s == LogicalSize(cfg, o) IN REmpty(r) \/ RClip(r, s[1], s[2]) = r
VisibleArea(cfg, o, r) ==
  LET s == LogicalSize(cfg, o)  cr == RClip(r, s[1], s[2]) IN cr[3] * cr[4]

\* raw window write, inside its documented precondition
SetPixelsPre(cfg, o, win, n) ==
  LET s == LogicalSize(cfg, o) IN
  /\ 0 <= win[1] /\ win[1] <= win[3] /\ win[3] < s[1]
  /\ 0 <= win[2] /\ win[2] <= win[4] /\ win[4] < s[2]
  /\ n <= (win[3] - win[1] + 1) * (win[4] - win[2] + 1)
ASetPixels(img, cfg, o, win, cols) ==
  LET ww == win[3] - win[1] + 1
      n == Len(cols)
  IN IF n = 0 THEN img ELSE
     PMerge([c \in {Place(cfg, o, win[1] + (k % ww), win[2] + (k \div ww)) : k \in 0 .. n - 1} |->
        LET p == PlaceInv(cfg, o, c) IN Colour(cfg, cols[(p[2] - win[2]) * ww + (p[1] - win[1]) + 1])], img)

\* the required picture after one drawing call given as the record the harness logs (name + arguments)
AExpected(img, cfg, o, n, a) ==
  CASE n = "set_pixel" -> APaint(img, cfg, o, <<<<a.x, a.y, a.c>>>>)
    [] n = "set_pixels" -> ASetPixels(img, cfg, o, a.win, a.colors)
    [] n = "draw_iter" -> APaint(img, cfg, o, a.px)
    [] n = "fill_solid" -> AFillSolid(img, cfg, o, a.rect, a.c)
    [] n = "fill_contiguous" -> AFillContig(img, cfg, o, a.rect, a.colors.start, a.colors.len)
    [] n = "clear" -> AFillSolid(img, cfg, o, <<0, 0, LogicalSize(cfg, o)[1], LogicalSize(cfg, o)[2]>>, a.c)
    [] OTHER -> img
AInBounds(cfg, o, n, a) ==
  CASE n = "set_pixel" -> InBox(cfg, o, a.x, a.y)
    [] n = "set_pixels" -> SetPixelsPre(cfg, o, a.win, Len(a.colors))
    [] n = "draw_iter" -> AllInBox(cfg, o, a.px)
    [] n \in {"fill_solid", "fill_contiguous"} -> RectInBox(cfg, o, a.rect)
    [] OTHER -> TRUE

\* the whole panel window in one colour (C12 recovery check)
WindowAll(cfg, col) ==
  [c \in (cfg.ox .. cfg.ox + cfg.w - 1) \X (cfg.oy .. cfg.oy + cfg.h - 1) |-> Colour(cfg, col)]

\* decomposition of the in-bounds part of a stream into maximal left-to-right runs, and the number
\* of bursts that cutting every run at capacity  cap  needs  (C20)
RunBursts(cfg, o, px, cap) ==
  LET vis == SelectSeq(px, LAMBDA p : InBox(cfg, o, p[1], p[2]))
      n == Len(vis)
      \* F[i] = <<bursts so far, length of the current run piece>> after i pixels
      F[i \in 0 .. n] ==
        IF i = 0 THEN <<0, 0>>
        ELSE LET prev == F[i - 1] IN
             IF i > 1 /\ vis[i][2] = vis[i-1][2] /\ vis[i][1] = vis[i-1][1] + 1 /\ prev[2] < cap
             THEN <<prev[1], prev[2] + 1>> ELSE <<prev[1] + 1, 1>>
  IN F[n][1]
=============================================================================
