------------------------------- MODULE Batch -------------------------------
(***************************************************************************)
(* The HOW of batch.rs: pixels -> rows -> blocks, transcribed branch for   *)
(* branch from RowIterator::next and BlockIterator::next.  The capacities  *)
(* are constants (real: 50 / 100; scaled in the MC instances).             *)
(***************************************************************************)
EXTENDS Integers, Sequences, SequencesExt, Words

CONSTANTS ROWCAP, BLOCKCAP

\* ---- RowIterator: one state record, consumed pixel by pixel; `out` collects the rows produced
Row0 == [xl |-> 0, xr |-> 0, y |-> 0, cols |-> <<>>, first |-> TRUE, out |-> <<>>]
MkRow(st) == [xl |-> st.xl, xr |-> st.xr, y |-> st.y, cols |-> st.cols]

\* Some(Pixel(coord, color)) arm; p = <<x, y, colour>> with i32 coordinates
RowPixel(st, p) ==
  IF p[1] < 0 \/ p[2] < 0 THEN st                                   \* `continue`
  ELSE LET x == AsU16(p[1])  y == AsU16(p[2]) IN
       IF st.first THEN [st EXCEPT !.first = FALSE, !.xl = x, !.xr = x, !.y = y, !.cols = <<p[3]>>]
       ELSE IF x = WrapAddU16(st.xr, 1) /\ y = st.y /\ Len(st.cols) < ROWCAP      \* push(color).is_ok()
            THEN [st EXCEPT !.xr = x, !.cols = Append(@, p[3])]
       ELSE [st EXCEPT !.out = Append(@, MkRow(st)), !.xl = x, !.xr = x, !.y = y, !.cols = <<p[3]>>]
\* None arm
RowEnd(st) == IF st.first THEN st ELSE [st EXCEPT !.out = Append(@, MkRow(st)), !.cols = <<>>, !.first = TRUE]
Rows(px) == RowEnd(FoldLeft(RowPixel, Row0, px)).out

\* ---- BlockIterator
Block0 == [xl |-> 0, xr |-> 0, yt |-> 0, yb |-> 0, cols |-> <<>>, first |-> TRUE, out |-> <<>>, panic |-> FALSE]
MkBlock(st) == [xl |-> st.xl, xr |-> st.xr, yt |-> st.yt, yb |-> st.yb, cols |-> st.cols]
BlockRow(st, r) ==
  IF st.panic THEN st
  ELSE IF st.first THEN [st EXCEPT !.first = FALSE, !.xl = r.xl, !.xr = r.xr, !.yt = r.y, !.yb = r.y, !.cols = r.cols]
  ELSE LET nb == AddU16(st.yb, 1) IN                                  \* self.y_bottom + 1
       IF Bad(nb) THEN [st EXCEPT !.panic = TRUE]
       ELSE IF r.y = nb /\ r.xl = st.xl /\ r.xr = st.xr /\ Len(st.cols) + Len(r.cols) <= BLOCKCAP
            THEN [st EXCEPT !.yb = r.y, !.cols = @ \o r.cols]
       ELSE [st EXCEPT !.out = Append(@, MkBlock(st)), !.xl = r.xl, !.xr = r.xr, !.yt = r.y, !.yb = r.y, !.cols = r.cols]
BlockEnd(st) == IF st.first \/ st.panic THEN st ELSE [st EXCEPT !.out = Append(@, MkBlock(st)), !.cols = <<>>, !.first = TRUE]
BlocksOf(rows) == BlockEnd(FoldLeft(BlockRow, Block0, rows))
Blocks(px) == BlocksOf(Rows(px)).out
BlocksPanic(px) == BlocksOf(Rows(px)).panic
=============================================================================
