-------------------------------- MODULE Clip --------------------------------
(***************************************************************************)
(* The HOW of the clipping iterators in graphics.rs: TakeSkip, take_u32,   *)
(* nth_u32 (both pointer-width variants) and the plan fill_contiguous      *)
(* computes.  Colour streams are index-coded: element k of a stream of     *)
(* length len (len < 0: unbounded) is k.                                   *)
(***************************************************************************)
EXTENDS Integers, Sequences, Geometry

\* underlying iterator: [pos, len];   None is -1
ItNext(it) == IF it.len >= 0 /\ it.pos >= it.len THEN [it |-> it, out |-> -1]
              ELSE [it |-> [it EXCEPT !.pos = @ + 1], out |-> it.pos]
\* Iterator::nth(n): skip n, return the next
ItNth(it, n) == IF it.len >= 0 /\ it.pos + n >= it.len THEN [it |-> [it EXCEPT !.pos = it.len], out |-> -1]
                ELSE [it |-> [it EXCEPT !.pos = @ + n + 1], out |-> it.pos + n]
\* the 16-bit-pointer variant of nth_u32:  for _ in 0..n { iter.next(); } iter.next()
ItNth16(it, n) == LET F[i \in 0 .. n] == IF i = 0 THEN it ELSE ItNext(F[i - 1]).it IN ItNext(F[n])

\* TakeSkip::next;  ts = [it, take, rem, skip]
TSNew(it, take, skip) == [it |-> it, take |-> take, rem |-> take, skip |-> skip]
TSNext(ts) ==
  IF ts.rem > 0 THEN LET r == ItNext(ts.it) IN [ts |-> [ts EXCEPT !.rem = @ - 1, !.it = r.it], out |-> r.out]
  ELSE IF ts.take > 0 THEN LET r == ItNth(ts.it, ts.skip) IN [ts |-> [ts EXCEPT !.rem = ts.take - 1, !.it = r.it], out |-> r.out]
  ELSE [ts |-> ts, out |-> -1]

\* take_u32(TakeSkip, count) drained by a consumer that stops at the first None:
\* the sequence of stream indices delivered and the final iterator position
RECURSIVE Drain(_, _, _)
Drain(ts, count, acc) ==
  IF count = 0 THEN [seq |-> acc, pos |-> ts.it.pos]
  ELSE LET r == TSNext(ts) IN
       IF r.out < 0 THEN [seq |-> acc, pos |-> r.ts.it.pos]
       ELSE Drain(r.ts, count - 1, Append(acc, r.out))

\* what fill_contiguous computes for rectangle a = <<x,y,w,h>> on a display of logical size lw x lh
\*   none : nothing is drawn;  win = <<sx,sy,ex,ey>>;  count;  skip0;  take;  skip;  same : intersection == area
ContigPlan(a, lw, lh) ==
  LET i == RClip(a, lw, lh) IN
  IF REmpty(i) THEN [none |-> TRUE]
  ELSE [none |-> FALSE, win |-> <<i[1], i[2], RRight(i), RBottom(i)>>, count |-> i[3] * i[4], same |-> i = a,
        skip0 |-> (IF i[2] > a[2] THEN (i[2] - a[2]) * a[3] ELSE 0) + (IF i[1] > a[1] THEN i[1] - a[1] ELSE 0),
        take |-> i[3], skip |-> a[3] - i[3]]

\* indices of the colours that reach set_pixels, in order, and how far the source was consumed
ContigDelivered(a, lw, lh, len) ==
  LET p == ContigPlan(a, lw, lh)
      it0 == [pos |-> 0, len |-> len]
  IN IF p.none THEN [seq |-> <<>>, pos |-> 0]
     ELSE IF p.same THEN Drain(TSNew(it0, p.count, 0), p.count, <<>>)        \* take_u32(colors, count)
     ELSE LET it1 == IF p.skip0 > 0 THEN ItNth(it0, p.skip0 - 1).it ELSE it0
          IN Drain(TSNew(it1, p.take, p.skip), p.count, <<>>)
=============================================================================
