----------------------------- MODULE Controller -----------------------------
(***************************************************************************)
(* The environment: a reference MIPI-DCS display controller.  It decodes   *)
(* command bytes and data words into register state and a sparse           *)
(* framebuffer.  It never rejects traffic: protocol observations are       *)
(* collected in  flags  and each property decides which of them matter.    *)
(***************************************************************************)
EXTENDS Integers, Sequences, FiniteSets, TLC, SequencesExt, Dcs

KnownOps == {1, 16, 17, 18, 19, 32, 33, 40, 41, 42, 43, 44, 51, 52, 53, 54, 55, 56, 57, 58}
Need(b) == CASE b \in {42, 43} -> 4 [] b = 51 -> 6 [] b \in {53, 54, 58} -> 1 [] b = 55 -> 2 [] OTHER -> 0

Regs0(W, H) ==
  [sleep |-> TRUE, on |-> FALSE, inv |-> FALSE, madctl |-> 0, colmod |-> 0, te |-> 0,
   tfa |-> 0, vsa |-> H, bfa |-> 0, vsp |-> 0, xs |-> 0, xe |-> W - 1, ys |-> 0, ye |-> H - 1,
   page |-> 0, cur |-> -1, par |-> <<>>, burst |-> <<>>, normal |-> TRUE, idle |-> FALSE]

\* bus: word width (8 / 16);  rm: the RM67162 vendor command-page rule applies
\* At power-up / before the driver has touched it the controller holds whatever an earlier boot stage or session left
\* behind: every register the driver is responsible for starts at a value that is NOT the reset default, so that an
\* initialisation that relies on a default it did not establish is exposed.
Garbage(W, H) == [Regs0(W, H) EXCEPT !.sleep = FALSE, !.on = TRUE, !.inv = TRUE, !.madctl = 236, !.colmod = 3, !.te = 2,
                                      !.normal = FALSE, !.idle = TRUE]
CtlNew(W, H, bus, rm) ==
  Garbage(W, H) @@
  [W |-> W, H |-> H, bus |-> bus, rm |-> rm, fb |-> <<>>, flags |-> {},
   n2c |-> 0, ndata |-> 0, nsw |-> 0, nhw |-> 0, ncmd |-> 0,
   tslpU |-> -1, tslpN |-> 0, tdone |-> <<0, 0>>, nslp |-> 0]

Flag(c, f) == [c EXCEPT !.flags = @ \cup {f}]

\* new over old.  (TLC's @@ searches the left domain linearly for every right element -- quadratic for
\* two large pictures; this form is n log n.)
Merge(new, old) ==
  IF DOMAIN old = {} THEN new ELSE
  LET dn == DOMAIN new IN [c \in dn \cup DOMAIN old |-> IF c \in dn THEN new[c] ELSE old[c]]

\* physical cell addressed by (column, page) under address mode m
CellOf(m, W, H, col, page) ==
  LET px0 == IF Bit(m, 5) THEN page ELSE col
      py0 == IF Bit(m, 5) THEN col ELSE page
  IN  <<IF Bit(m, 6) THEN W - 1 - px0 ELSE px0, IF Bit(m, 7) THEN H - 1 - py0 ELSE py0>>
\* inverse
AddrOf(m, W, H, c) ==
  LET px0 == IF Bit(m, 6) THEN W - 1 - c[1] ELSE c[1]
      py0 == IF Bit(m, 7) THEN H - 1 - c[2] ELSE c[2]
  IN  IF Bit(m, 5) THEN <<py0, px0>> ELSE <<px0, py0>>
ColLimit(m, W, H)  == IF Bit(m, 5) THEN H ELSE W
PageLimit(m, W, H) == IF Bit(m, 5) THEN W ELSE H

\* group data words into pixels according to bus width and interface pixel format
Bpp(c) == c.colmod % 8
WordsPerPixel(c) == CASE c.bus = 8 /\ Bpp(c) = 5 -> 2 [] c.bus = 8 /\ Bpp(c) = 6 -> 3
                      [] c.bus = 16 /\ Bpp(c) = 5 -> 1 [] OTHER -> 0
PixelAt(c, ws, k) ==     \* k-th pixel (1-based) of word sequence ws
  CASE c.bus = 8 /\ Bpp(c) = 5 -> Dec16x8(ws[2 * k - 1], ws[2 * k])
    [] c.bus = 8 /\ Bpp(c) = 6 -> Dec18x8(ws[3 * k - 2], ws[3 * k - 1], ws[3 * k])
    [] OTHER -> ws[k]

MaxInt == 2147483647
\* the framebuffer with the data received since the last memory-write-start applied
ApplyBurst(c) ==
  IF c.cur # 44 \/ c.burst = <<>> THEN c ELSE
  LET n  == WordsPerPixel(c) IN
  IF n = 0 THEN Flag(c, "unsupported_format") ELSE
  LET ws == c.burst
      np == Len(ws) \div n
      fl1 == IF Len(ws) % n # 0 THEN {"partial_pixel"} ELSE {}
  IN
  IF c.xs > c.xe \/ c.ys > c.ye THEN [c EXCEPT !.flags = @ \cup fl1 \cup {"start_gt_end"}] ELSE
  LET ww == c.xe - c.xs + 1
      wh == c.ye - c.ys + 1
      big == wh > MaxInt \div ww
      area == IF big THEN MaxInt ELSE ww * wh
      nn == IF np > area THEN area ELSE np
      LastK(i) == i + area * ((np - 1 - i) \div area)          \* last pixel index hitting slot i
      cl == ColLimit(c.madctl, c.W, c.H)
      pl == PageLimit(c.madctl, c.W, c.H)
      InFb(i) == c.xs + (i % ww) < cl /\ c.ys + (i \div ww) < pl
      idx == {i \in 0 .. nn - 1 : InFb(i)}
      cells == {CellOf(c.madctl, c.W, c.H, c.xs + (i % ww), c.ys + (i \div ww)) : i \in idx}
      Val(cell) == LET a == AddrOf(c.madctl, c.W, c.H, cell)
                       i == (a[2] - c.ys) * ww + (a[1] - c.xs)
                   IN PixelAt(c, ws, (IF np > area THEN LastK(i) ELSE i) + 1)
      fl2 == (IF np > area THEN {"overrun"} ELSE {}) \cup
             (IF Cardinality(idx) # nn THEN {"oob_addr"} ELSE {})
  IN [c EXCEPT !.fb = Merge([cell \in cells |-> Val(cell)], c.fb), !.flags = @ \cup fl1 \cup fl2]

FbView(c) == ApplyBurst(c).fb

\* a command is over (another command byte or a reset arrives)
EndCmd(c) ==
  LET c1 == IF c.cur = 44 THEN [ApplyBurst(c) EXCEPT !.burst = <<>>] ELSE c
  IN  IF c1.cur \in KnownOps /\ Len(c1.par) < Need(c1.cur) THEN Flag(c1, "short_params") ELSE c1

HwReset(c) == [k \in DOMAIN c |-> IF k \in DOMAIN Regs0(c.W, c.H) THEN Regs0(c.W, c.H)[k] ELSE c[k]]

Spaced(c, us, ns) ==  \* at least 120 ms since the previous sleep-in / sleep-out
  c.tslpU < 0 \/ us - c.tslpU > 120000 \/ (us - c.tslpU = 120000 /\ ns >= c.tslpN)

CtlCmd(c0, b, us, ns) ==
  LET c1 == EndCmd(c0)
      c  == [c1 EXCEPT !.cur = b, !.par = <<>>, !.ncmd = @ + 1]
  IN
  IF c.rm /\ c.page # 0 /\ b # 254 THEN [c EXCEPT !.cur = -2] ELSE
  \* software reset: like the hardware reset, except that the address mode survives it (ILI9341 / ST7789 data sheets:
  \* MADCTL "S/W reset: no change")
  CASE b = 1  -> [HwReset(c) EXCEPT !.nsw = c.nsw + 1, !.cur = 1, !.tslpU = -1, !.madctl = c.madctl]
    [] b = 16 -> [(IF Spaced(c, us, ns) THEN c ELSE Flag(c, "sleep_spacing"))
                    EXCEPT !.sleep = TRUE, !.tslpU = us, !.tslpN = ns, !.nslp = @ + 1]
    [] b = 17 -> [(IF Spaced(c, us, ns) THEN c ELSE Flag(c, "sleep_spacing"))
                    EXCEPT !.sleep = FALSE, !.tslpU = us, !.tslpN = ns, !.nslp = @ + 1]
    [] b = 18 -> [c EXCEPT !.normal = FALSE]
    [] b = 19 -> [c EXCEPT !.normal = TRUE]
    [] b = 32 -> [c EXCEPT !.inv = FALSE]
    [] b = 33 -> [c EXCEPT !.inv = TRUE]
    [] b = 40 -> [c EXCEPT !.on = FALSE]
    [] b = 41 -> [c EXCEPT !.on = TRUE]
    [] b = 44 -> [c EXCEPT !.n2c = @ + 1]
    [] b = 52 -> [c EXCEPT !.te = 0]
    [] b = 56 -> [c EXCEPT !.idle = FALSE]
    [] b = 57 -> [c EXCEPT !.idle = TRUE]
    [] OTHER  -> c

Param(c0, word) ==
  LET b == word % 256
      c1 == IF word > 255 THEN Flag(c0, "param_gt_255") ELSE c0
      c == [c1 EXCEPT !.par = Append(@, b)]
      p == c.par
      n == Len(p)
  IN
  IF c.cur = -2 THEN c1 ELSE
  IF c.rm /\ c.cur = 254 THEN (IF n = 1 THEN [c EXCEPT !.page = b] ELSE c) ELSE
  IF c.cur \notin KnownOps THEN c ELSE
  IF n > Need(c.cur) THEN Flag(c, "extra_params") ELSE
  IF n < Need(c.cur) THEN c ELSE
  CASE c.cur = 42 -> [c EXCEPT !.xs = p[1] * 256 + p[2], !.xe = p[3] * 256 + p[4]]
    [] c.cur = 43 -> [c EXCEPT !.ys = p[1] * 256 + p[2], !.ye = p[3] * 256 + p[4]]
    [] c.cur = 51 -> [c EXCEPT !.tfa = p[1] * 256 + p[2], !.vsa = p[3] * 256 + p[4], !.bfa = p[5] * 256 + p[6]]
    [] c.cur = 53 -> [c EXCEPT !.te = 1 + (b % 2)]
    [] c.cur = 54 -> [c EXCEPT !.madctl = b]
    [] c.cur = 55 -> [c EXCEPT !.vsp = p[1] * 256 + p[2]]
    [] c.cur = 58 -> [c EXCEPT !.colmod = b]
    [] OTHER -> c

\* a chunk of data words (not command bytes)
CtlData(c, ws) ==
  IF ws = <<>> THEN c ELSE
  IF c.cur = 44 THEN [c EXCEPT !.burst = @ \o ws, !.ndata = @ + Len(ws)]
  ELSE IF c.cur = -1 THEN Flag(c, "data_without_command")
  ELSE FoldLeft(Param, c, ws)
=============================================================================
