-------------------------------- MODULE Dcs --------------------------------
(***************************************************************************)
(* MIPI DCS: opcodes, parameter encodings, the address-mode byte and the   *)
(* pixel encodings / decodings.  Written from the MIPI tables, not from    *)
(* the repository.                                                         *)
(***************************************************************************)
EXTENDS Integers, Sequences

Pow2(n) == CASE n = 0 -> 1 [] n = 1 -> 2 [] n = 2 -> 4 [] n = 3 -> 8 [] n = 4 -> 16 [] n = 5 -> 32
             [] n = 6 -> 64 [] n = 7 -> 128 [] n = 8 -> 256 [] n = 9 -> 512 [] n = 10 -> 1024
             [] n = 11 -> 2048 [] n = 12 -> 4096 [] n = 13 -> 8192 [] n = 14 -> 16384
             [] n = 15 -> 32768 [] OTHER -> 65536
Bit(v, i) == (v \div Pow2(i)) % 2 = 1
B2I(b) == IF b THEN 1 ELSE 0

OP_SWRESET == 1    OP_SLPIN == 16   OP_SLPOUT == 17  OP_PTLON == 18   OP_NORON == 19
OP_INVOFF == 32    OP_INVON == 33   OP_DISPOFF == 40 OP_DISPON == 41  OP_CASET == 42
OP_RASET == 43     OP_RAMWR == 44   OP_VSCRDEF == 51 OP_TEOFF == 52   OP_TEON == 53
OP_MADCTL == 54    OP_VSCSAD == 55  OP_IDMOFF == 56  OP_IDMON == 57   OP_COLMOD == 58

Be16(v) == <<v \div 256, v % 256>>
Caset(s, e) == Be16(s) \o Be16(e)
Vscrdef(t, v, b) == Be16(t) \o Be16(v) \o Be16(b)

\* the address-mode byte, bit by bit from the MIPI table:
\*   B7 page (row) address order, B6 column address order, B5 page/column exchange,
\*   B4 line refresh order (1 = bottom to top), B3 RGB/BGR (1 = BGR), B2 data latch order (1 = right to left)
\* The orientation decides B7..B5: a clockwise quarter turn needs exchange + column reversal, etc.
MadctlOf(bgr, o, refv, refh) ==
  LET my == o.rot \in {2, 3}
      mx == (o.rot \in {1, 2}) # o.mir
      mv == o.rot \in {1, 3}
  IN  128 * B2I(my) + 64 * B2I(mx) + 32 * B2I(mv) + 16 * refv + 8 * B2I(bgr) + 4 * refh

\* pixel encodings on the bus and the controller-side decodings
Enc565x8(c)  == <<c \div 256, c % 256>>
Enc565x16(c) == <<c>>
\* raw Rgb666 = r*4096 + g*64 + b  (6 bits each); on an 8-bit bus: R,G,B bytes with the 6 bits left-aligned
R666(c) == c \div 4096   G666(c) == (c \div 64) % 64   B666(c) == c % 64
Enc666x8(c)  == <<4 * R666(c), 4 * G666(c), 4 * B666(c)>>
Dec16x8(hi, lo) == hi * 256 + lo
Dec18x8(r, g, b) == (r \div 4) * 4096 + (g \div 4) * 64 + (b \div 4)

\* COLMOD parameter for a colour type (DBI and DPI nibble both set)
ColmodFor(colour) == IF colour = "565" THEN 85 ELSE 102      \* 0x55 / 0x66
=============================================================================
