------------------------------- MODULE Driver -------------------------------
(***************************************************************************)
(* The HOW of lib.rs / graphics.rs / builder.rs: what the current code     *)
(* sends for every public call, as a sequence of interface-level           *)
(* operations in the format the recording interface of the harness logs:   *)
(*    <<"cmd", opcode, params, 1>>     send_command                        *)
(*    <<"px", words, N, 1>>            send_pixels (N words per pixel)     *)
(*    <<"rep", words, hi, lo, 1>>      send_repeated_pixel, count hi:lo    *)
(*    <<"dly", us, ns>>                delay source                        *)
(* Arithmetic goes through Words so that the u16 overflow behaviour of the *)
(* window computation is part of the model.                                *)
(***************************************************************************)
EXTENDS Integers, Sequences, SequencesExt, Words, Geometry, Dcs, Batch, Clip

\* MemoryMapping::from_orientation
Mapping(o) == [my |-> o.rot \in {2, 3}, mx |-> (o.rot \in {1, 2}) # o.mir, mv |-> o.rot \in {1, 3}]

\* the three masked setters of SetAddressMode, as the code has them
WithColorOrder(b, bgr) == b - (IF Bit(b, 3) THEN 8 ELSE 0) + (IF bgr THEN 8 ELSE 0)
WithOrientation(b, o) == LET m == Mapping(o) IN (b % 32) + 128 * B2I(m.my) + 64 * B2I(m.mx) + 32 * B2I(m.mv)
WithRefreshOrder(b, v, h) == b - (IF Bit(b, 4) THEN 16 ELSE 0) - (IF Bit(b, 2) THEN 4 ELSE 0) + 16 * v + 4 * h
MadctlFromOptions(cfg, o) == WithRefreshOrder(WithOrientation(WithColorOrder(0, cfg.bgr), o), cfg.refv, cfg.refh)

\* driver object after a successful init
DNew(cfg, o) == [cfg |-> cfg, orient |-> o, madctl |-> MadctlFromOptions(cfg, o), sleeping |-> FALSE]

Cmd(op, p) == <<"cmd", op, p, 1>>
Res(d, ops) == [d |-> d, ops |-> ops, panic |-> FALSE]
Panicked(d, ops) == [d |-> d, ops |-> ops, panic |-> TRUE]

Wide(cfg) == cfg.iface \in {"p16", "rec_p16"}
PixWords(cfg, c) == IF cfg.colour = "666" THEN Enc666x8(c % 262144)
                    ELSE IF Wide(cfg) THEN <<c % 65536>> ELSE Enc565x8(c % 65536)
NWords(cfg) == IF cfg.colour = "666" THEN 3 ELSE IF Wide(cfg) THEN 1 ELSE 2
FlatWords(cfg, cols) ==
  LET n == NWords(cfg) IN
  [j \in 1 .. n * Len(cols) |-> PixWords(cfg, cols[((j - 1) \div n) + 1])[((j - 1) % n) + 1]]

\* set_address_window
DWindow(d, sx, sy, ex, ey) ==
  LET c == d.cfg  m == Mapping(d.orient)
      o1 == IF m.mx THEN SubU16(c.W, AddU16(c.w, c.ox)) ELSE c.ox
      o2 == IF m.my THEN SubU16(c.H, AddU16(c.h, c.oy)) ELSE c.oy
      offx == IF m.mv THEN o2 ELSE o1
      offy == IF m.mv THEN o1 ELSE o2
      a == AddU16(sx, offx)  b == AddU16(sy, offy)  e == AddU16(ex, offx)  f == AddU16(ey, offy)
  IN IF Bad(a) \/ Bad(b) \/ Bad(e) \/ Bad(f) THEN [panic |-> TRUE, ops |-> <<>>]
     ELSE [panic |-> FALSE, ops |-> <<Cmd(42, Caset(a, e)), Cmd(43, Caset(b, f))>>]

\* set_pixels
DSetPixels(d, sx, sy, ex, ey, cols) ==
  LET win == DWindow(d, sx, sy, ex, ey) IN
  IF win.panic THEN Panicked(d, <<>>)
  ELSE Res(d, win.ops \o <<Cmd(44, <<>>), <<"px", FlatWords(d.cfg, cols), NWords(d.cfg), 1>>>>)

LSize(d) == LogicalSize(d.cfg, d.orient)

\* fill_solid
DFillSolid(d, r, col) ==
  LET s == LSize(d)  a == RClip(r, s[1], s[2]) IN
  IF REmpty(a) THEN Res(d, <<>>)
  ELSE LET win == DWindow(d, a[1], a[2], RRight(a), RBottom(a))
           count == a[3] * a[4]
       IN IF win.panic THEN Panicked(d, <<>>)
          ELSE Res(d, win.ops \o <<Cmd(44, <<>>), <<"rep", PixWords(d.cfg, col), count \div 65536, count % 65536, 1>>>>)

\* fill_contiguous with the index-coded stream  start, start+1, ...  of length len
DFillContig(d, r, start, len) ==
  LET s == LSize(d)
      p == ContigPlan(r, s[1], s[2])
  IN IF p.none THEN [d |-> d, ops |-> <<>>, panic |-> FALSE, pulled |-> 0]
     ELSE LET del == ContigDelivered(r, s[1], s[2], len)
              cols == [i \in 1 .. Len(del.seq) |-> start + del.seq[i]]
              sp == DSetPixels(d, p.win[1], p.win[2], p.win[3], p.win[4], cols)
          IN [d |-> d, ops |-> sp.ops, panic |-> sp.panic, pulled |-> del.pos]

\* draw_iter: discard what is outside the bounding box, then batch (rows -> blocks) or draw one by one
Visible(d, px) == SelectSeq(px, LAMBDA p : InBox(d.cfg, d.orient, p[1], p[2]))
DDrawIter(d, px) ==
  LET vis == Visible(d, px)
      One(acc, piece) == IF acc.panic THEN acc
                         ELSE [d |-> d, ops |-> acc.ops \o piece.ops, panic |-> piece.panic]
  IN IF d.cfg.batch
     THEN IF BlocksPanic(vis) THEN Panicked(d, <<>>)
          ELSE FoldLeft(LAMBDA acc, b : One(acc, DSetPixels(d, b.xl, b.yt, b.xr, b.yb, b.cols)), Res(d, <<>>), Blocks(vis))
     ELSE FoldLeft(LAMBDA acc, p : One(acc, DSetPixels(d, AsU16(p[1]), AsU16(p[2]), AsU16(p[1]), AsU16(p[2]), <<p[3]>>)),
                   Res(d, <<>>), vis)

\* draw_iter of the pinned tree before the repair (defect 2): nothing but the negative-coordinate test inside the
\* row iterator (and not even that without the batch feature); kept as the negative control of MC_Placement
DDrawIterPrefix(d, px) ==
  LET One(acc, piece) == IF acc.panic THEN acc ELSE [d |-> d, ops |-> acc.ops \o piece.ops, panic |-> piece.panic]
  IN IF d.cfg.batch
     THEN IF BlocksPanic(px) THEN Panicked(d, <<>>)
          ELSE FoldLeft(LAMBDA acc, b : One(acc, DSetPixels(d, b.xl, b.yt, b.xr, b.yb, b.cols)), Res(d, <<>>), Blocks(px))
     ELSE FoldLeft(LAMBDA acc, p : One(acc, DSetPixels(d, AsU16(p[1]), AsU16(p[2]), AsU16(p[1]), AsU16(p[2]), <<p[3]>>)),
                   Res(d, <<>>), px)

DClear(d, col) == LET s == LSize(d) IN DFillSolid(d, <<0, 0, s[1], s[2]>>, col)

\* set_orientation: the cached address mode is updated first, the options after the command succeeded
DSetOrientation(d, o) ==
  LET m == WithOrientation(d.madctl, o) IN Res([d EXCEPT !.madctl = m, !.orient = o], <<Cmd(54, <<m>>)>>)

DScrollRegion(d, t, b) ==
  LET rows == d.cfg.H IN
  Res(d, <<Cmd(51, IF t + b > rows THEN Vscrdef(rows, 0, 0) ELSE Vscrdef(t, rows - t - b, b))>>)
DScrollOffset(d, v) == Res(d, <<Cmd(55, Be16(v))>>)
DTearing(d, mode) == Res(d, <<IF mode = "off" THEN Cmd(52, <<>>) ELSE Cmd(53, <<IF mode = "hv" THEN 1 ELSE 0>>)>>)
DSleep(d) == Res([d EXCEPT !.sleeping = TRUE], <<Cmd(16, <<>>), <<"dly", 120000, 0>>>>)
DWake(d) == Res([d EXCEPT !.sleeping = FALSE], <<Cmd(17, <<>>), <<"dly", 120000, 0>>>>)

\* Builder::init's configuration check, with the u32 widening the code performs (no wrap possible)
DInitCheck(cfg) ==
  IF cfg.w = 0 \/ cfg.h = 0 \/ cfg.w > cfg.W \/ cfg.h > cfg.H THEN "InvalidDisplaySize"
  ELSE IF cfg.w + cfg.ox > cfg.W THEN "InvalidDisplayOffset"
  ELSE IF cfg.h + cfg.oy > cfg.H THEN "InvalidDisplayOffset"
  ELSE "ok"

\* one public call given as the record the harness logs (name + arguments)
DCall(d, name, a) ==
  CASE name = "set_pixel" -> DSetPixels(d, a.x, a.y, a.x, a.y, <<a.c>>)
    [] name = "set_pixels" -> DSetPixels(d, a.win[1], a.win[2], a.win[3], a.win[4], a.colors)
    [] name = "draw_iter" -> DDrawIter(d, a.px)
    [] name = "fill_solid" -> DFillSolid(d, a.rect, a.c)
    [] name = "fill_contiguous" -> LET r == DFillContig(d, a.rect, a.colors.start, a.colors.len) IN
                                   [d |-> r.d, ops |-> r.ops, panic |-> r.panic]
    [] name = "clear" -> DClear(d, a.c)
    [] name = "set_orientation" -> DSetOrientation(d, [rot |-> a.rot, mir |-> a.mir])
    [] name = "scroll_region" -> DScrollRegion(d, a.top, a.bottom)
    [] name = "scroll_offset" -> DScrollOffset(d, a.v)
    [] name = "tearing" -> DTearing(d, a.mode)
    [] name = "sleep" -> DSleep(d)
    [] name = "wake" -> DWake(d)
    [] OTHER -> Res(d, <<>>)
=============================================================================
