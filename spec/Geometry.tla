------------------------------ MODULE Geometry ------------------------------
(***************************************************************************)
(* The WHAT of placement.  Orientations, logical size, and the closed-form *)
(* map from a logical position to a framebuffer cell that C01 is judged    *)
(* against.  Nothing in this module mentions MADCTL or address windows.    *)
(***************************************************************************)
EXTENDS Integers, Sequences

Orientations == [rot : 0..3, mir : BOOLEAN]

\* cfg carries  W,H (controller framebuffer)  w,h (panel window)  ox,oy (window offset)
LogicalSize(cfg, o) == IF o.rot \in {0, 2} THEN <<cfg.w, cfg.h>> ELSE <<cfg.h, cfg.w>>

InBox(cfg, o, x, y) ==
  LET s == LogicalSize(cfg, o) IN 0 <= x /\ x < s[1] /\ 0 <= y /\ y < s[2]

\* rotate the logical image clockwise by o.rot quarter turns, mirror it left-right if o.mir,
\* shift it by the offset
Place(cfg, o, x, y) ==
  LET rx == CASE o.rot = 0 -> x
              [] o.rot = 1 -> cfg.w - 1 - y
              [] o.rot = 2 -> cfg.w - 1 - x
              [] OTHER     -> y
      ry == CASE o.rot = 0 -> y
              [] o.rot = 1 -> x
              [] o.rot = 2 -> cfg.h - 1 - y
              [] OTHER     -> cfg.h - 1 - x
  IN  <<cfg.ox + (IF o.mir THEN cfg.w - 1 - rx ELSE rx), cfg.oy + ry>>

\* inverse of Place on the panel window
PlaceInv(cfg, o, c) ==
  LET mx == c[1] - cfg.ox
      ry == c[2] - cfg.oy
      rx == IF o.mir THEN cfg.w - 1 - mx ELSE mx
  IN CASE o.rot = 0 -> <<rx, ry>>
       [] o.rot = 1 -> <<ry, cfg.w - 1 - rx>>
       [] o.rot = 2 -> <<cfg.w - 1 - rx, cfg.h - 1 - ry>>
       [] OTHER     -> <<cfg.h - 1 - ry, rx>>

\* the panel window: the only framebuffer cells a DrawTarget call may ever touch
InWindow(cfg, c) ==
  /\ cfg.ox <= c[1] /\ c[1] < cfg.ox + cfg.w
  /\ cfg.oy <= c[2] /\ c[2] < cfg.oy + cfg.h

---------------------------------------------------------------------------
\* Orientation algebra (C15): the geometric meaning, on pictures.
\* A picture is a function from <<x,y>> in (0..pw-1) \X (0..ph-1) to a value, with its size.

Pic(pw, ph, f(_, _)) == [w |-> pw, h |-> ph, at |-> [p \in (0..pw-1) \X (0..ph-1) |-> f(p[1], p[2])]]

\* one clockwise quarter turn of a picture
RotCW1(p) == Pic(p.h, p.w, LAMBDA x, y : p.at[<<y, p.h - 1 - x>>])
RotCW(p, r) == CASE r = 0 -> p [] r = 1 -> RotCW1(p) [] r = 2 -> RotCW1(RotCW1(p))
                 [] OTHER -> RotCW1(RotCW1(RotCW1(p)))
MirrorLR(p) == Pic(p.w, p.h, LAMBDA x, y : p.at[<<p.w - 1 - x, y>>])
MirrorTB(p) == Pic(p.w, p.h, LAMBDA x, y : p.at[<<x, p.h - 1 - y>>])

\* what a panel of size w x h (no offset) shows when logical picture p is drawn under orientation o
Show(w, h, o, p) ==
  LET cfg == [w |-> w, h |-> h, ox |-> 0, oy |-> 0] IN
  [c \in {Place(cfg, o, q[1], q[2]) : q \in DOMAIN p.at} |->
      LET q == CHOOSE q \in DOMAIN p.at : Place(cfg, o, q[1], q[2]) = c IN p.at[q]]

\* the orientation operations as orientation.rs has them
RotAdd(a, b) == (a + b) % 4
ORotate(o, r) == [rot |-> RotAdd(o.rot, r), mir |-> o.mir]
OFlipHAbs(o) == [rot |-> o.rot, mir |-> ~o.mir]
OFlipVAbs(o) == [rot |-> RotAdd(o.rot, 2), mir |-> ~o.mir]
OFlipH(o) == IF o.rot \in {1, 3} THEN OFlipVAbs(o) ELSE OFlipHAbs(o)
OFlipV(o) == IF o.rot \in {1, 3} THEN OFlipHAbs(o) ELSE OFlipVAbs(o)

\* angle parsing (C15): total, congruent modulo 360
TryFromDegree(a) == IF a % 90 = 0 THEN (a % 360) \div 90 ELSE -1

---------------------------------------------------------------------------
\* embedded-graphics rectangles  r = <<x, y, w, h>>  (valid ones: x + (w-1) and y + (h-1) fit an i32)
REmpty(r) == r[3] = 0 \/ r[4] = 0
RRight(r)  == r[1] + (r[3] - 1)
RBottom(r) == r[2] + (r[4] - 1)
RContains(r, x, y) == ~REmpty(r) /\ r[1] <= x /\ x <= RRight(r) /\ r[2] <= y /\ y <= RBottom(r)
Max2(a, b) == IF a >= b THEN a ELSE b
Min2(a, b) == IF a <= b THEN a ELSE b
\* intersection of a non-empty-or-empty rectangle with the display box <<0,0,lw,lh>>; <<0,0,0,0>> if none
RClip(r, lw, lh) ==
  IF REmpty(r) \/ lw = 0 \/ lh = 0 THEN <<0, 0, 0, 0>> ELSE
  LET x0 == Max2(r[1], 0)  y0 == Max2(r[2], 0)
      x1 == Min2(RRight(r), lw - 1)  y1 == Min2(RBottom(r), lh - 1)
  IN IF x0 > x1 \/ y0 > y1 THEN <<0, 0, 0, 0>> ELSE <<x0, y0, x1 - x0 + 1, y1 - y0 + 1>>
=============================================================================
