------------------------------- MODULE Judge -------------------------------
(***************************************************************************)
(* The property predicates, evaluated on one recorded (or modelled) call:  *)
(* given the scenario, the abstract driver state, the environment before   *)
(* and after the call and the call record, each Judge* operator returns    *)
(* the sequence of verdict records (empty = everything the properties      *)
(* demand of this call holds).  Used by the trace monitor (Trace.tla) and  *)
(* by design-level models that build call records themselves.              *)
(***************************************************************************)
EXTENDS Wire, Abstract

Flatten2(px) == LET n == Len(px) IN IF n = 0 THEN <<>> ELSE
                LET m == Len(px[1]) IN [i \in 1 .. n * m |-> px[((i - 1) \div m) + 1][((i - 1) % m) + 1]]

V(r, props, what) == <<[id |-> r.id, i |-> r.i, name |-> r.name, props |-> props, what |-> what]>>
Chk(ok, r, props, what) == IF ok THEN <<>> ELSE V(r, props, what)

IsDrawTarget(n) == n \in {"draw_iter", "fill_solid", "fill_contiguous", "clear", "test_image"}
IsDrawing(n) == IsDrawTarget(n) \/ n \in {"set_pixel", "set_pixels"}
Kind(iface) == CASE iface \in {"spi", "rec"} -> "serial" [] iface \in {"p8", "rec_p8"} -> "p8" [] OTHER -> "p16"
Unsupported(model, iface) ==
  \/ model \in {"gc9107", "rm67162"} /\ Kind(iface) = "p16"
  \/ model = "ili9486_565" /\ Kind(iface) = "serial"

Elapsed120(us0, ns0, us1, ns1) == us1 - us0 > 120000 \/ (us1 - us0 = 120000 /\ ns1 >= ns0)
Elapsed10us(us0, ns0, us1, ns1) == us1 - us0 > 10 \/ (us1 - us0 = 10 /\ ns1 >= ns0)

\* which property a misbehaving call of this name is attributed to
CallProps(sc, d, r) ==
  LET n == r.name
      base == CASE n \in {"set_pixel", "set_pixels"} -> {"C01"}
                [] IsDrawTarget(n) -> {"C02"}
                [] n = "init" -> {"C11"}
                [] n = "model_init" -> {"C11"}
                [] n = "set_orientation" -> {"C10"}
                [] n \in {"scroll_region", "scroll_offset"} -> {"C16"}
                [] n \in {"sleep", "wake"} -> {"C13"}
                [] n = "raw" -> {"C18"}
                [] n \in {"xport.send_command", "xport.write_raw", "xport.send_pixels", "xport.send_repeated_pixel"}
                     -> IF sc.cfg.iface = "spi" THEN {"C06"} ELSE {"C07"}
                [] n = "bus.set_value" -> {"C07"}
                [] OTHER -> {"X"}
  IN base \cup (IF n = "test_image" THEN {"C19"} ELSE {})

\* expected error path for a failure injected at a low-level operation of the given kind
FailKind(op) == CASE op[1] = "spi" -> "Spi" [] op[1] = "spitx" -> "Spi" [] op[1] = "dc" -> "Dc" [] op[1] = "d" -> "Bus"
                  [] op[1] = "wr" -> "Wr" [] op[1] = "rst" -> "ResetPin" [] op[1] \in {"cmd", "px", "rep"} -> "Rec"
                  [] OTHER -> "?"
OpOk(op) == CASE op[1] \in {"dc", "wr", "rst", "spi", "spitx"} -> op[3]
              [] op[1] \in {"d", "cmd", "px"} -> op[4] [] op[1] = "rep" -> op[5] [] OTHER -> 1
FirstFailed(ops) == LET bad == {i \in 1 .. Len(ops) : OpOk(ops[i]) # 1} IN
                    IF bad = {} THEN 0 ELSE CHOOSE i \in bad : \A j \in bad : i <= j

---------------------------------------------------------------------------

---------------------------------------------------------------------------
\* one driver call of a display scenario
Cfg(sc) == sc.cfg
Orient0(sc) == [rot |-> sc.cfg.rot, mir |-> sc.cfg.mir]

ExpectedImg(sc, d, img, r) == AExpected(img, sc.cfg, d.orient, r.name, r.args)
ArgsInBounds(sc, d, r) == AInBounds(sc.cfg, d.orient, r.name, r.args)

FaultHere(sc, r) == \E j \in 1 .. Len(sc.faults) : sc.faults[j].call = r.i /\ sc.faults[j].k >= 1 /\ sc.faults[j].k <= r.nf
FaultK(sc, r) == LET j == CHOOSE j \in 1 .. Len(sc.faults) : sc.faults[j].call = r.i IN sc.faults[j].k

JudgeDrawing(sc, d, img, w0, w1, r, rowcap) ==
  LET cfg == sc.cfg
      n == r.name
      inb == ArgsInBounds(sc, d, r)
      pre == (n \notin {"set_pixel", "set_pixels"}) \/ inb       \* raw calls only inside their precondition
      exp == IF pre THEN ExpectedImg(sc, d, img, r) ELSE img
      fb == FbView(w1.ctl)
      pfb == (IF n \in {"set_pixel", "set_pixels"} \/ inb THEN {"C01"} ELSE {}) \cup
             (IF IsDrawTarget(n) /\ ~inb THEN {"C02"} ELSE {}) \cup
             (IF n = "draw_iter" THEN {"C03"} ELSE {}) \cup
             (IF n = "fill_contiguous" THEN {"C04"} ELSE {}) \cup
             (IF d.reoriented THEN {"C10"} ELSE {}) \cup
             (IF d.faulted THEN {"C12"} ELSE {}) \cup
             (IF cfg.iface = "spi" THEN {"C06"} ELSE IF cfg.iface \in {"p8", "p16"} THEN {"C07"} ELSE {}) \cup
             (IF sc.tag = "colour" THEN {"C05"} ELSE {}) \cup (IF sc.tag = "testimage" THEN {"C19"} ELSE {}) \cup
             (IF sc.tag = "orient-drawn" THEN {"C15"} ELSE {}) \cup
             (IF n = "draw_iter" /\ cfg.batch THEN {"C20"} ELSE {})
      newflags == w1.ctl.flags \ w0.ctl.flags
      wpp == WordsPerPixel(w1.ctl)
      fr == FramingErrors(w0.ctl, w1.cmds, wpp, IsDrawTarget(n))
      n2c == Num2C(w1.cmds)
      vis == IF n \in {"fill_solid", "fill_contiguous"} THEN VisibleArea(cfg, d.orient, r.args.rect)
             ELSE IF n = "clear" THEN 1 ELSE 0
      usable == IF cfg.iface = "spi" /\ wpp > 0 THEN (cfg.buf \div wpp) * wpp ELSE 0
      TxBad(i) == LET e == w1.cmds[i] IN e.op = 44 /\ usable > 0 /\ e.tx > (e.n \div usable) + 2
  IN
  IF ~pre THEN [img |-> fb, v |-> <<>>, skip |-> TRUE] ELSE
  [img |-> exp, skip |-> FALSE,
   v |-> Chk(r.res = "ok", r, CallProps(sc, d, r) \cup (IF inb THEN {"C01"} ELSE {}) \cup (IF d.faulted THEN {"C12"} ELSE {}),
             "drawing call did not return Ok with fault-free mocks: " \o r.res \o " " \o r.pmsg \o " " \o r.ploc)
      \o Chk(r.res # "ok" \/ fb = exp, r, pfb, "framebuffer differs from the expected picture")
      \o Chk(r.res # "ok" \/ \A c \in DOMAIN fb : InWindow(cfg, c), r,
             IF IsDrawTarget(n) THEN {"C02"} ELSE {"C01"}, "a cell outside the panel window was modified")
      \o Chk(newflags \cap {"oob_addr", "start_gt_end"} = {}, r,
             (IF IsDrawTarget(n) THEN {"C02"} ELSE {}) \cup {"C08"},
             "controller memory addressed outside the framebuffer / start > end")
      \o Chk(r.res # "ok" \/ fr = "", r, {"C08"}, "framing: " \o fr)
      \o Chk(r.res # "ok" \/ ~IsDrawTarget(n) \/ "overrun" \notin newflags, r, {"C08"}, "write pointer wrapped")
      \o Chk(r.res # "ok" \/ "partial_pixel" \notin newflags, r, {"C08"}, "incomplete pixel in burst")
      \o Chk(r.res # "ok" \/ n \notin {"fill_solid", "fill_contiguous", "clear"} \/ vis = 0 \/ (n2c = 1 /\ Num2A(w1.cmds) = 1),
             r, {"C20"}, "a fill used more or fewer than one address-window set-up")
      \o Chk(r.res # "ok" \/ n \notin {"fill_solid", "fill_contiguous"} \/ vis # 0 \/ n2c <= 1,
             r, {"C20"}, "an invisible fill used more than one address-window set-up")
      \o Chk(r.res # "ok" \/ n # "draw_iter" \/ ~cfg.batch \/ rowcap < 2 \/
             n2c <= RunBursts(cfg, d.orient, r.args.px, rowcap),
             r, {"C20"}, "draw_iter used more window set-ups than its runs split at the row capacity need")
      \o Chk(r.res # "ok" \/ n # "draw_iter" \/ n2c <= NumInBox(cfg, d.orient, r.args.px),
             r, {"C20"}, "draw_iter used more window set-ups than in-bounds pixels")
      \o Chk(r.res # "ok" \/ \A i \in 1 .. Len(w1.cmds) : ~TxBad(i),
             r, {"C20"}, "an SPI burst used more transactions than floor(b/usable)+1")
      \o Chk(r.res # "ok" \/ n # "fill_contiguous" \/ r.args.colors.len >= 0 \/
             (LET a == r.args.rect IN a[4] > (MaxInt - 1) \div Max2(a[3], 1) \/ r.x.pulled <= a[3] * a[4] + 1),
             r, {"C04"}, "an unbounded colour source was pulled beyond the rectangle")]

---------------------------------------------------------------------------
\* initialisation (C09, C11, C17)
JudgeInit(sc, w0, w1, r) ==
  LET cfg == sc.cfg
      verdict == InitVerdict(cfg)
      unsup == Unsupported(cfg.model, cfg.iface)
      c == w1.ctl
      okExpected == verdict = "ok" /\ ~unsup
      resetOk ==
        IF cfg.rst /\ r.name = "init" THEN
             /\ Len(w1.rstlog) = 2 /\ w1.rstlog[1][1] = 0 /\ w1.rstlog[2][1] = 1
             /\ Elapsed10us(w1.rstlog[1][2], w1.rstlog[1][3], w1.rstlog[2][2], w1.rstlog[2][3])
             /\ w1.rstlog[2][4] = 0 /\ w1.busBeforeRstHigh = 0 /\ w1.rst = 1 /\ c.nsw = w0.ctl.nsw
        ELSE IF r.name = "init" THEN
             /\ Len(w1.cmds) >= 1 /\ w1.cmds[1].op = 1 /\ w1.cmds[1].n = 0
             /\ Cardinality({i \in 1 .. Len(w1.cmds) : w1.cmds[i].op = 1}) = 1
        ELSE TRUE
  IN
  IF FaultHere(sc, r) THEN <<>> ELSE
  IF verdict # "ok" /\ r.name = "init" THEN
       Chk(r.res = "err" /\ r.err = <<"InvalidConfiguration", verdict>>, r, {"C09"},
           "init must reject this window with " \o verdict)
    \o Chk(Len(r.ops) = 0, r, {"C09"}, "init touched the reset pin, the delay source or the bus before rejecting")
  ELSE IF unsup THEN
       Chk(r.res = "err" /\ r.err = <<"InvalidConfiguration", "UnsupportedInterface">>, r, {"C11"},
           "an interface kind the model cannot drive must be refused with UnsupportedInterface")
    \o Chk(\A i \in 1 .. Len(w1.cmds) : w1.cmds[i].op = 1, r, {"C11"},
           "a model command was sent before the interface kind was refused")
    \o Chk(r.name # "init" \/ resetOk, r, {"C17"}, "reset sequence malformed")
  ELSE
       Chk(r.res = "ok", r, {"C09", "C11"}, "init of a valid configuration failed: " \o r.res \o " " \o ToString(r.err) \o r.pmsg)
    \o (IF r.res # "ok" THEN <<>> ELSE
         Chk(~c.sleep, r, {"C11"}, "controller left asleep")
      \o Chk(c.on, r, {"C11"}, "display not switched on")
      \o Chk(c.madctl = MadctlOf(cfg.bgr, Orient0(sc), cfg.refv, cfg.refh), r, {"C11", "C14"},
             "address mode in the controller differs from the encoding of the options")
      \o Chk(c.colmod % 8 = ColmodFor(cfg.colour) % 8, r, {"C11", "C05"}, "interface pixel format does not match the colour type")
      \o Chk(c.inv = cfg.inv, r, {"C11"}, "colour inversion differs from the option")
      \o Chk(c.n2c = w0.ctl.n2c /\ c.ndata = w0.ctl.ndata /\ FbView(c) = FbView(w0.ctl), r, {"C11"}, "init wrote pixel memory")
      \o Chk(c.tslpU >= 0 /\ Elapsed120(c.tslpU, c.tslpN, w1.us, w1.ns), r, {"C11", "C13"},
             "init returned earlier than 120 ms after sleep-out")
      \o Chk("sleep_spacing" \notin (c.flags \ w0.ctl.flags), r, {"C13"}, "sleep-in/out commands less than 120 ms apart")
      \o Chk(resetOk, r, {"C17"}, "reset sequence malformed")
      \o Chk(w1.wflags \cap {"sampled_unknown", "dc_unknown"} = {}, r,
             {"C17", IF cfg.iface = "spi" THEN "C06" ELSE "C07"} \cup (IF sc.tag = "colour" THEN {"C05"} ELSE {}),
             "a word was put on the bus while a data / D/C line had never been driven")
      \o Chk(r.name # "init" \/ (r.obs.rot = cfg.rot /\ r.obs.mir = cfg.mir /\ r.obs.sleeping = FALSE
                                   /\ r.obs.size = LogicalSize(cfg, Orient0(sc))), r, {"C10", "C13"},
             "getters after init disagree with the options")
      \o Chk(r.name # "model_init" \/ r.x.madctl = <<MadctlOf(cfg.bgr, Orient0(sc), cfg.refv, cfg.refh)>>, r, {"C11"},
             "the address mode returned by Model::init differs from the one sent"))

\* everything that is neither drawing nor init
JudgeOther(sc, d, w0, w1, r) ==
  LET cfg == sc.cfg  n == r.name  a == r.args  c == w1.ctl  cm == w1.cmds
      One(op, p) == Len(cm) = 1 /\ cm[1].op = op /\ cm[1].n = Len(p) /\ cm[1].p = p
      slpOk == \A i \in 1 .. Len(w1.slpAt) : Elapsed120(w1.slpAt[i][1], w1.slpAt[i][2], w1.us, w1.ns)
  IN
  Chk(r.res = "ok", r, CallProps(sc, d, r) \cup (IF d.faulted THEN {"C12"} ELSE {}), "call failed with fault-free mocks: " \o r.res \o " " \o r.pmsg \o " " \o r.ploc)
  \o (IF r.res # "ok" THEN <<>> ELSE
  CASE n = "set_orientation" ->
         LET o == [rot |-> a.rot, mir |-> a.mir] IN
         Chk(r.obs.rot = a.rot /\ r.obs.mir = a.mir, r, {"C10"}, "reported orientation differs from the one set")
      \o Chk(r.obs.size = LogicalSize(cfg, o), r, {"C10"}, "reported size differs from the size under the orientation set")
      \o Chk(c.madctl = MadctlOf(cfg.bgr, o, cfg.refv, cfg.refh), r, {"C10", "C14"},
             "address mode after set_orientation is not the encoding of (colour order, new orientation, refresh order)")
      \o Chk(Len(cm) = 1 /\ cm[1].op = 54 /\ cm[1].n = 1, r, {"C10", "C18"}, "set_orientation must send exactly one set-address-mode command")
    [] n = "scroll_region" ->
         Chk(Len(cm) = 1 /\ cm[1].op = 51 /\ cm[1].n = 6, r, {"C16", "C18"}, "scroll region: not exactly one scroll-area definition")
      \o Chk(c.tfa + c.vsa + c.bfa = cfg.H, r, {"C16"}, "scroll areas do not add up to the framebuffer height")
      \o Chk(a.top + a.bottom > cfg.H \/ (c.tfa = a.top /\ c.bfa = a.bottom), r, {"C16"}, "fixed areas not passed through unchanged")
    [] n = "scroll_offset" ->
         Chk(One(55, Be16(a.v)), r, {"C16", "C18"}, "scroll offset not sent unchanged as one big-endian 16-bit parameter")
    [] n = "tearing" ->
         Chk(IF a.mode = "off" THEN One(52, <<>>) ELSE IF a.mode = "v" THEN One(53, <<0>>) ELSE One(53, <<1>>), r, {"C18"},
             "tearing-effect command malformed")
    [] n = "raw" ->
         Chk(One(a.op, a.params) \/ (a.op = 44 /\ Len(cm) = 1 /\ cm[1].op = 44 /\ cm[1].n = Len(a.params)), r, {"C18"},
             "write_raw through dcs() did not put exactly the instruction and bytes on the bus")
    [] n \in {"sleep", "wake"} ->
         Chk(r.obs.sleeping = (n = "sleep"), r, {"C13"}, "is_sleeping() does not follow the call")
      \o Chk(c.sleep = (n = "sleep"), r, {"C13"}, "controller sleep state differs from the call")
      \* its own command, once -- or nothing at all if the controller already is in that state (a redundant call
      \* may be skipped; the property only demands that flag and controller agree and that what is sent is spaced)
      \o Chk(One(IF n = "sleep" THEN 16 ELSE 17, <<>>) \/ (cm = <<>> /\ w0.ctl.sleep = (n = "sleep")), r, {"C13"},
             "sleep/wake sent something other than its one command")
      \o Chk(slpOk, r, {"C13"}, "call returned earlier than 120 ms after the sleep-in/out command")
    [] OTHER -> <<>>)
  \o Chk("sleep_spacing" \notin (c.flags \ w0.ctl.flags), r, {"C13"}, "sleep-in/out commands less than 120 ms apart")

\* checks that apply after every call of a display scenario
JudgeAlways(sc, d1, w0, w1, r) ==
  IF r.res # "ok" \/ r.name \in {"init", "model_init"} THEN <<>> ELSE
     Chk(r.obs.sleeping = d1.sleeping, r, {"C13"}, "is_sleeping() changed by a call other than sleep/wake, or is wrong")
  \* (a sleep/wake call that failed half-way may or may not have delivered its command: the controller's
  \*  state is then unknown to the driver until the next successful sleep/wake)
  \o Chk(d1.slpUnknown \/ w1.ctl.sleep = d1.sleeping, r, {"C13"}, "controller sleep state differs from is_sleeping()")
  \* (the picture shown is what the controller scans out under its address mode: orientation bits for the geometry,
  \*  colour-order and refresh bits for the rest -- C15 "shows the same picture" on the scenarios made for it)
  \o Chk(r.obs.rot = d1.orient.rot /\ r.obs.mir = d1.orient.mir /\ r.obs.size = LogicalSize(sc.cfg, d1.orient), r,
         {"C10"} \cup (IF sc.tag = "orient-drawn" THEN {"C15"} ELSE {}), "reported orientation/size differs from the last orientation set")
  \o Chk(w1.ctl.madctl = MadctlOf(sc.cfg.bgr, d1.orient, sc.cfg.refv, sc.cfg.refh), r,
         {"C10"} \cup (IF sc.tag = "orient-drawn" THEN {"C15"} ELSE {}),
         "controller address mode differs from the last orientation set")
  \o Chk(w1.wflags \cap {"sampled_unknown", "dc_unknown"} = {}, r,
         (IF sc.cfg.iface = "spi" THEN {"C06"} ELSE {"C07"}) \cup (IF sc.tag = "colour" THEN {"C05"} ELSE {}),
         "a word was put on the bus while a data / D/C line had never been driven")
  \o Chk(w1.ctl.colmod % 8 = ColmodFor(sc.cfg.colour) % 8, r, {"C05", "C11"},
         "the interface pixel format in the controller no longer matches the colour type")

---------------------------------------------------------------------------
\* a call during which a low-level failure was injected (C12)
JudgeFault(sc, d, w0, w1, r) ==
  LET k == FirstFailed(r.ops)
      kind == IF k = 0 THEN "?" ELSE FailKind(r.ops[k])
      inner == IF kind = "ResetPin" THEN <<"ResetPin">> ELSE <<kind>>
      path == IF r.name \in {"init", "model_init"} /\ kind # "ResetPin" THEN <<"Interface">> \o inner ELSE inner
  IN
     Chk(k > 0, r, {"X"}, "harness: planned fault did not fire")
  \o Chk(r.res = "err", r, {"C12"}, "a failing pin/bus operation was not reported: " \o r.res \o " " \o r.pmsg)
  \o Chk(r.res # "err" \/ (r.err = path /\ r.errk = FaultK(sc, r)), r, {"C12"},
         "error not wrapped in the variant naming its source: expected " \o ToString(path) \o " got " \o ToString(r.err))
  \o Chk(w1.after = 0, r, {"C12"}, "pin or bus operations were issued after the failure")
  \o Chk(r.name \notin {"sleep", "wake"} \/ r.obs.sleeping = d.sleeping, r, {"C12", "C13"},
         "sleep flag changed although the command failed")
  \o Chk(r.name # "init" \/ Cardinality({i \in 1 .. Len(w1.cmds) : w1.cmds[i].op = 1}) <= 1, r, {"C12", "C17"},
         "the software reset was sent more than once")
  \o Chk(kind # "ResetPin" \/ w1.nbus = 0, r, {"C12", "C17"},
         "the reset pulse did not complete, yet commands were put on the bus")
  \o Chk(sc.kind # "xport" \/ r.name \notin {"xport.send_pixels", "xport.send_repeated_pixel"} \/
         (LET got == SubSeq(w1.ctl.burst, Len(w0.ctl.burst) + 1, Len(w1.ctl.burst))
              exp == IF r.name = "xport.send_pixels" THEN Flatten2(r.args.px)
                     ELSE RepWords(r.args.pixel, r.args.count[1] * 65536 + r.args.count[2])
          IN Len(got) <= Len(exp) /\ got = SubSeq(exp, 1, Len(got)) /\ \A i \in 1 .. Len(w1.cmds) : w1.cmds[i].op = -1),
         r, {"C12", IF sc.cfg.iface = "spi" THEN "C06" ELSE "C07"},
         "the words that reached the bus before the failure are not a prefix of the words to send")

---------------------------------------------------------------------------
\* transports addressed directly (C06, C07, C20)
First16(q) == IF Len(q) <= 16 THEN q ELSE SubSeq(q, 1, 16)

\* A repeat count of 2^31 pixels or more (a legal u32; TLC's integers end there, so the count stays in its two
\* 16-bit halves).  The recording ends when the call has used its operation budget, far below count * N words: a
\* correct transport is then still sending the pattern (res = "budget"); returning early, Ok or by panic, means that
\* not every pixel was sent.
HugeRepeat(r) == r.name = "xport.send_repeated_pixel" /\ r.args.count[1] >= 32768
JudgeHuge(sc, w0, w1, r) ==
  LET P == IF sc.cfg.iface = "spi" THEN {"C06"} ELSE {"C07"}
      got == SubSeq(w1.ctl.burst, Len(w0.ctl.burst) + 1, Len(w1.ctl.burst))
      pat == r.args.pixel
  IN Chk(r.res = "budget", r, P, "repeat count >= 2^31: the call ended before count * N words were sent: " \o r.res \o " " \o r.pmsg \o " " \o r.ploc)
     \o Chk(\A i \in 1 .. Len(got) : got[i] = pat[((i - 1) % Len(pat)) + 1], r, P,
            "repeat count >= 2^31: the words on the bus are not the repeated pixel")
     \o Chk(\A i \in 1 .. Len(w1.cmds) : w1.cmds[i].op = -1, r, P, "a command byte (D/C low) appeared inside pixel data")

JudgeXport(sc, w0, w1, r) ==
  IF HugeRepeat(r) THEN JudgeHuge(sc, w0, w1, r) ELSE
  LET cfg == sc.cfg  n == r.name  a == r.args  c == w1.ctl  cm == w1.cmds
      P == IF cfg.iface = "spi" THEN {"C06"} ELSE {"C07"}
      isSpi == cfg.iface = "spi"
      cnt == IF n = "xport.send_repeated_pixel" THEN a.count[1] * 65536 + a.count[2] ELSE 0
      expWords == CASE n = "xport.send_pixels" -> Flatten2(a.px)
                    [] n = "xport.send_repeated_pixel" -> RepWords(a.pixel, cnt)
                    [] OTHER -> <<>>
      nb == Len(expWords)
      usable == IF isSpi /\ n # "xport.send_command" /\ n # "xport.write_raw" THEN (cfg.buf \div a.n) * a.n ELSE 1
      noCmd == \A i \in 1 .. Len(cm) : cm[i].op = -1
      lastWord == IF nb > 0 THEN expWords[nb]
                  ELSE IF n \in {"xport.send_command", "xport.write_raw"} THEN
                       (IF Len(a.params) > 0 THEN a.params[Len(a.params)] ELSE a.op)
                  ELSE -1
  IN
  Chk(r.res = "ok", r, P, "transport call did not return Ok: " \o r.res \o " " \o r.pmsg \o " " \o r.ploc)
  \o (IF r.res # "ok" THEN <<>> ELSE
  (CASE n \in {"xport.send_command", "xport.write_raw"} ->
         Chk(Len(cm) = 1 /\ cm[1].op = a.op /\ cm[1].n = Len(a.params) /\ cm[1].p = First16(a.params), r, P,
             "command: the words on the bus are not exactly the instruction (D/C low) followed by the parameters (D/C high)")
      \o Chk(a.op = 44 \/ c.rm \/ c.par = a.params, r, P, "parameter bytes differ from the ones given")
      \o Chk(a.op # 44 \/ c.burst = a.params, r, P, "parameter bytes differ from the ones given")
    [] OTHER ->
         Chk(noCmd, r, P, "a command byte (D/C low) appeared inside pixel data")
      \o Chk(c.burst = w0.ctl.burst \o expWords, r, P, "the data words on the bus are not exactly the pixel words, in order"))
  \o Chk(w1.wflags \cap {"dc_unknown", "sampled_unknown", "command_gt_255", "repeated_command_strobe"} = {}, r, P,
         "undriven or misused line: " \o ToString(w1.wflags))
  \o Chk(~isSpi \/ w1.ntx <= nb + Len(cm) + 16, r, {"C06"}, "unbounded number of bus transactions")
  \o Chk(~isSpi \/ n \in {"xport.send_command", "xport.write_raw"} \/ w1.ntx <= (nb \div usable) + 1, r, {"C20"},
         "an SPI burst used more transactions than floor(b/usable)+1")
  \o Chk(isSpi \/ lastWord < 0 \/ (BusWord(w1) = lastWord /\ ~BusUnknown(w1)), r, {"C07"},
         "the data pins do not show the last word written"))

JudgeBus(sc, w0, w1, r) ==
  IF r.res = "ok" THEN
     Chk(BusWord(w1) = r.args.v /\ ~BusUnknown(w1), r, {"C07"}, "after a successful set_value the data pins do not show the value")
  ELSE Chk(r.res = "err" /\ FirstFailed(r.ops) > 0, r, {"C07"}, "set_value failed without a failing pin: " \o r.res \o " " \o r.pmsg)
       \o Chk(w1.after = 0, r, {"C07", "C12"}, "pin operations were issued after the failure")

=============================================================================
