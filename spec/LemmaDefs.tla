------------------------------ MODULE LemmaDefs ------------------------------
(***************************************************************************)
(* Record-free restatements of Driver.DWindow / Driver.Mapping,            *)
(* Controller.CellOf and Geometry.Place, so that the placement lemma       *)
(* (Lemmas.tla, TLAPS) is linear integer arithmetic.  MC_Small             *)
(* ("lemmadefs") checks with TLC that they agree with the originals.       *)
(***************************************************************************)
EXTENDS Integers

CONSTANTS W, H, w, h, ox, oy

MY(rot) == rot = 2 \/ rot = 3
MX(rot, mir) == (rot = 1 \/ rot = 2) # mir
MV(rot) == rot = 1 \/ rot = 3

\* set_address_window
Off1(rot, mir) == IF MX(rot, mir) THEN W - (w + ox) ELSE ox
Off2(rot) == IF MY(rot) THEN H - (h + oy) ELSE oy
OffX(rot, mir) == IF MV(rot) THEN Off2(rot) ELSE Off1(rot, mir)
OffY(rot, mir) == IF MV(rot) THEN Off1(rot, mir) ELSE Off2(rot)

\* the controller's address decoding under MY / MX / MV
CellX(rot, mir, col, page) == IF MX(rot, mir) THEN W - 1 - (IF MV(rot) THEN page ELSE col) ELSE (IF MV(rot) THEN page ELSE col)
CellY(rot, col, page) == IF MY(rot) THEN H - 1 - (IF MV(rot) THEN col ELSE page) ELSE (IF MV(rot) THEN col ELSE page)

\* the closed form of C01
RotX(rot, x, y) == IF rot = 0 THEN x ELSE IF rot = 1 THEN w - 1 - y ELSE IF rot = 2 THEN w - 1 - x ELSE y
RotY(rot, x, y) == IF rot = 0 THEN y ELSE IF rot = 1 THEN x ELSE IF rot = 2 THEN h - 1 - y ELSE h - 1 - x
PlaceX(rot, mir, x, y) == ox + (IF mir THEN w - 1 - RotX(rot, x, y) ELSE RotX(rot, x, y))
PlaceY(rot, x, y) == oy + RotY(rot, x, y)

LW(rot) == IF rot = 0 \/ rot = 2 THEN w ELSE h
LH(rot) == IF rot = 0 \/ rot = 2 THEN h ELSE w
=============================================================================
