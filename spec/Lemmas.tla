------------------------------- MODULE Lemmas -------------------------------
(***************************************************************************)
(* Unbounded form of the heart of C01, proved with TLAPS (tlapm Lemmas.tla *)
(* in this directory): for EVERY framebuffer size, panel window and        *)
(* orientation, the address the driver's window arithmetic sends for a     *)
(* logical position, decoded by the controller under the address-mode bits *)
(* the driver sets, is the cell the closed form Place demands; it lies     *)
(* inside the panel window; the reversed offsets never go negative.        *)
(* Plus the no-wrap facts behind C09 and C16.                              *)
(***************************************************************************)
EXTENDS LemmaDefs, TLAPS

ASSUME Cfg == /\ W \in Nat /\ H \in Nat /\ w \in Nat /\ h \in Nat /\ ox \in Nat /\ oy \in Nat
              /\ w >= 1 /\ h >= 1 /\ ox + w <= W /\ oy + h <= H

Claim(rot, mir, x, y) ==
  (x < LW(rot) /\ y < LH(rot)) =>
     /\ CellX(rot, mir, x + OffX(rot, mir), y + OffY(rot, mir)) = PlaceX(rot, mir, x, y)
     /\ CellY(rot, x + OffX(rot, mir), y + OffY(rot, mir)) = PlaceY(rot, x, y)
     /\ ox <= PlaceX(rot, mir, x, y) /\ PlaceX(rot, mir, x, y) < ox + w
     /\ oy <= PlaceY(rot, x, y) /\ PlaceY(rot, x, y) < oy + h
     /\ OffX(rot, mir) >= 0 /\ OffY(rot, mir) >= 0
     \* and the window end stays inside the address range the controller has under MV
     /\ x + OffX(rot, mir) < (IF MV(rot) THEN H ELSE W) /\ y + OffY(rot, mir) < (IF MV(rot) THEN W ELSE H)

LEMMA Rot0 == \A mir \in BOOLEAN, x \in Nat, y \in Nat : Claim(0, mir, x, y)
  BY Cfg DEF Claim, CellX, CellY, PlaceX, PlaceY, RotX, RotY, OffX, OffY, Off1, Off2, MX, MY, MV, LW, LH
LEMMA Rot1 == \A mir \in BOOLEAN, x \in Nat, y \in Nat : Claim(1, mir, x, y)
  BY Cfg DEF Claim, CellX, CellY, PlaceX, PlaceY, RotX, RotY, OffX, OffY, Off1, Off2, MX, MY, MV, LW, LH
LEMMA Rot2 == \A mir \in BOOLEAN, x \in Nat, y \in Nat : Claim(2, mir, x, y)
  BY Cfg DEF Claim, CellX, CellY, PlaceX, PlaceY, RotX, RotY, OffX, OffY, Off1, Off2, MX, MY, MV, LW, LH
LEMMA Rot3 == \A mir \in BOOLEAN, x \in Nat, y \in Nat : Claim(3, mir, x, y)
  BY Cfg DEF Claim, CellX, CellY, PlaceX, PlaceY, RotX, RotY, OffX, OffY, Off1, Off2, MX, MY, MV, LW, LH

THEOREM Placement == \A rot \in 0 .. 3, mir \in BOOLEAN, x \in Nat, y \in Nat : Claim(rot, mir, x, y)
  BY Rot0, Rot1, Rot2, Rot3

\* C09: sums of two u16 values fit a u32 (the widening in Builder::init cannot wrap)
LEMMA InitNoWrap == \A a \in 0 .. 65535, b \in 0 .. 65535 : a + b <= 131070 /\ a + b < 4294967296
  OBVIOUS
\* C16: the scroll areas the driver sends always add up to the framebuffer height, and the middle one is a u16
LEMMA ScrollSum == \A t \in 0 .. 65535, b \in 0 .. 65535, rows \in 1 .. 65535 :
                     /\ (t + b > rows) => rows + 0 + 0 = rows
                     /\ (t + b <= rows) => (t + (rows - t - b) + b = rows /\ rows - t - b >= 0 /\ rows - t - b <= 65535)
  OBVIOUS
=============================================================================
