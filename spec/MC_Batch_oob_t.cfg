SPECIFICATION Spec
INVARIANT Holds
INVARIANT Consistent
VIEW View
ACTION_CONSTRAINT Export
CHECK_DEADLOCK FALSE
CONSTANTS
  U16MAX = 65535
  PROFILE = "debug"
  ROWCAP = 3
  BLOCKCAP = 6
  MAXW = 2
  MAXH = 2
  DEPTH = 1
  OOB = TRUE
  REORIENT = FALSE
  BIGSET = FALSE
  SAMPLE = 211
  STREAMLEN = 4
  TWOCOLOURS = FALSE
  RING = 1
  FILTERED = TRUE
  STOREORIENT = TRUE
