SPECIFICATION Spec
INVARIANT Holds
INVARIANT Consistent
VIEW View
ACTION_CONSTRAINT Export
CHECK_DEADLOCK FALSE
CONSTANTS
  U16MAX = 65535
  PROFILE = "debug"
  ROWCAP = 2
  BLOCKCAP = 5
  MAXW = 3
  MAXH = 2
  DEPTH = 1
  OOB = FALSE
  REORIENT = FALSE
  BIGSET = FALSE
  SAMPLE = 211
  STREAMLEN = 5
  TWOCOLOURS = FALSE
  RING = 1
  FILTERED = TRUE
  STOREORIENT = TRUE
