----------------------------- MODULE MC_Builder -----------------------------
(***************************************************************************)
(* Builder (builder.rs) as a state machine: every setter overwrites one    *)
(* field of the options and nothing else, `reset_pin` re-types the builder *)
(* and must carry everything over, `init` uses what the LAST call of each  *)
(* kind gave (or the default where no call was made).  TLC enumerates      *)
(* every call sequence up to MAXCALLS over                                 *)
(*    color, invert, refresh, orient, size, offset   (the value wanted)    *)
(*    color0, ... offset0                             (another value)      *)
(*    rst                                             (attach a reset pin) *)
(* and exports each complete sequence (ACTION_CONSTRAINT Export) to be     *)
(* executed on the real Builder (`cfg.border` of the harness); trace       *)
(* validation then judges the initialisation against the options the       *)
(* sequence denotes.                                                       *)
(*                                                                         *)
(* FLAW selects a known-bad design (negative controls, expected to fail):  *)
(*   "rstdrop"  reset_pin() builds the re-typed builder from default       *)
(*              options (seeded changes C11-r4m2, C14-r4m2)                *)
(*   "endcache" offset + size cached when display_offset() is called and   *)
(*              not refreshed by display_size() (C09-r4m2); the cached     *)
(*              value is what init validates                               *)
(***************************************************************************)
EXTENDS Integers, Sequences, FiniteSets, TLC, Json

CONSTANTS MAXCALLS, FLAW, SAMPLE

Kinds == {"color", "invert", "refresh", "orient", "size", "offset"}
\* abstract values of a field: "d" default, "a" the value wanted, "b" another value
Default == [k \in Kinds |-> "d"]

VARIABLES opts, hasRst, hist, done, cachedEnd, want
vars == <<opts, hasRst, hist, done, cachedEnd, want>>

Init == /\ opts = Default /\ hasRst = FALSE /\ hist = <<>> /\ done = FALSE
        /\ cachedEnd = <<"d", "d">>           \* (offset value, size value) the cached window end was computed from
        /\ want = Default                     \* what the sequence denotes: the last value given per kind

Set(k, v) == /\ ~done /\ Len(hist) < MAXCALLS
             /\ opts' = [opts EXCEPT ![k] = v]
             /\ want' = [want EXCEPT ![k] = v]
             /\ hist' = Append(hist, IF v = "a" THEN k ELSE k \o "0")
             /\ cachedEnd' = IF k = "offset" THEN <<v, opts["size"]>> ELSE cachedEnd
             /\ UNCHANGED <<hasRst, done>>

Rst == /\ ~done /\ ~hasRst /\ Len(hist) < MAXCALLS
       /\ hasRst' = TRUE
       /\ opts' = IF FLAW = "rstdrop" THEN Default ELSE opts
       /\ hist' = Append(hist, "rst")
       /\ UNCHANGED <<done, cachedEnd, want>>

\* a decoy ("b") only makes sense if the real value of the same kind follows: the harness knows one other value per
\* kind, and the configuration a scenario is judged against is the one the real calls give
WellFormed == \A k \in Kinds : want[k] # "b"

DoInit == /\ ~done /\ WellFormed
          /\ done' = TRUE
          /\ UNCHANGED <<opts, hasRst, hist, cachedEnd, want>>

Next == (\E k \in Kinds, v \in {"a", "b"} : Set(k, v)) \/ Rst \/ DoInit
Spec == Init /\ [][Next]_vars

\* what init validates as the window: with the flaw, the cached pair; without, the fields themselves
Validated == IF FLAW = "endcache" THEN (IF \E i \in 1 .. Len(hist) : hist[i] \in {"offset", "offset0"} THEN cachedEnd ELSE <<opts["offset"], opts["size"]>>)
             ELSE <<opts["offset"], opts["size"]>>

\* C09 / C11 / C14: the display is built with the last value given for every field, whatever the order of the calls
LastWins == done => (opts = want /\ Validated = <<want["offset"], want["size"]>>)

\* one program per complete sequence
Export == (done' /\ ~done /\ SAMPLE > 0 /\ TLCGet("generated") % SAMPLE = 0) =>
            PrintT(<<"EDGE", ToJson([cfg |-> [builder |-> TRUE, batch |-> TRUE], border |-> hist,
                                     real |-> {k \in Kinds : want[k] = "a"}, rst |-> hasRst])>>)
=============================================================================
