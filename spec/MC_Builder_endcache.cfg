\* negative control (window end cached by display_offset(), stale after display_size()): expected to FAIL
SPECIFICATION Spec
INVARIANT LastWins
ACTION_CONSTRAINT Export
CHECK_DEADLOCK FALSE
CONSTANTS
  MAXCALLS = 3
  FLAW = "endcache"
  SAMPLE = 0
