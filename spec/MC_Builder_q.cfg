SPECIFICATION Spec
INVARIANT LastWins
ACTION_CONSTRAINT Export
CHECK_DEADLOCK FALSE
CONSTANTS
  MAXCALLS = 3
  FLAW = "none"
  SAMPLE = 1
