\* negative control (reset_pin() drops the options set before it): expected to FAIL
SPECIFICATION Spec
INVARIANT LastWins
ACTION_CONSTRAINT Export
CHECK_DEADLOCK FALSE
CONSTANTS
  MAXCALLS = 3
  FLAW = "rstdrop"
  SAMPLE = 0
