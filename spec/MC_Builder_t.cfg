SPECIFICATION Spec
INVARIANT LastWins
ACTION_CONSTRAINT Export
CHECK_DEADLOCK FALSE
CONSTANTS
  MAXCALLS = 5
  FLAW = "none"
  SAMPLE = 11
