SPECIFICATION Spec
INVARIANT Drawn
INVARIANT DrawnPrefix
INVARIANT NoLatePoll
PROPERTY Termination
CHECK_DEADLOCK FALSE
CONSTANTS
  MAXLEN = 4
  FUSE = TRUE
  KINDS = {"batch", "contig"}
