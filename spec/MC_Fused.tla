------------------------------ MODULE MC_Fused ------------------------------
(***************************************************************************)
(* The polling protocol between the driver and the iterator it is given.   *)
(* A Rust iterator need not be fused: after its first `None` it may yield  *)
(* `Some` again.  The stream a call is given ends at the first `None`      *)
(* (what `for p in it { set_pixel(p) }` would draw).                       *)
(*                                                                         *)
(* kind = "batch": draw_batch (batch.rs) as a step machine with one step   *)
(* per `next()` call -- the `for` loop polls BlockIterator, which polls     *)
(* RowIterator, which polls the pixel iterator; both adaptors flush what   *)
(* they hold when they see `None` and are polled AGAIN by their consumer,  *)
(* so the pixel iterator is polled after it has ended.  Whether an item    *)
(* continues the open row / whether a row stacks onto the open block is    *)
(* data (the bits `adj` and `stk` of an item).                             *)
(*                                                                         *)
(* kind = "contig": the clipped path of fill_contiguous (graphics.rs):     *)
(* `nth(skip - 1)` over the colours of clipped points -- its `None` is not *)
(* looked at -- followed by `take(count)`, which send_pixels stops polling *)
(* at its first `None`.                                                    *)
(*                                                                         *)
(* FUSE = TRUE is the repaired code (`.fuse()` on the iterator given);     *)
(* FUSE = FALSE is the pinned tree (defects 6 and 7; negative control).    *)
(***************************************************************************)
EXTENDS Integers, Sequences, FiniteSets, TLC

CONSTANTS MAXLEN, FUSE, KINDS

None == [id |-> 0, adj |-> FALSE, stk |-> FALSE]
Items == [id : {1}, adj : BOOLEAN, stk : BOOLEAN]            \* ids are assigned by position below
Slot == Items \cup {None}
Sources == UNION {[1 .. n -> Slot] : n \in 0 .. MAXLEN}
\* the i-th slot gets id i, so that loss, duplication and reordering are visible
Tag(s) == [i \in 1 .. Len(s) |-> IF s[i] = None THEN None ELSE [s[i] EXCEPT !.id = i]]

VARIABLES src, kind, skip, take, i, fused, late, pc, rowOpen, rowRet, blkOpen, blkRet, out, n
vars == <<src, kind, skip, take, i, fused, late, pc, rowOpen, rowRet, blkOpen, blkRet, out, n>>

IsNone(v) == v.id = 0
FirstNone == IF \E j \in 1 .. Len(src) : IsNone(src[j]) THEN CHOOSE j \in 1 .. Len(src) : IsNone(src[j]) /\ \A k \in 1 .. j - 1 : ~IsNone(src[k])
             ELSE Len(src) + 1
Stream == [j \in 1 .. FirstNone - 1 |-> src[j].id]

Init == /\ src \in {Tag(s) : s \in Sources}
        /\ kind \in KINDS
        /\ skip \in (IF kind = "contig" THEN 0 .. 2 ELSE {0})
        /\ take \in (IF kind = "contig" THEN 0 .. 2 ELSE {0})
        /\ i = 1 /\ fused = FALSE /\ late = 0
        /\ pc = (IF kind = "batch" THEN "for" ELSE "c.skip") /\ n = skip
        /\ rowOpen = <<>> /\ rowRet = <<None>> /\ blkOpen = <<>> /\ blkRet = <<None>> /\ out = <<>>

\* one `next()` on the iterator the driver was given (behind `fuse()` if FUSE): value and successor state
PollVal == IF (FUSE /\ fused) \/ i > Len(src) THEN None ELSE src[i]
Polled == /\ i' = IF (FUSE /\ fused) \/ i > Len(src) THEN i ELSE i + 1
          /\ fused' = (fused \/ IsNone(PollVal))
          \* polls that reach the raw iterator after it has returned its first None (`fused` records that it has)
          /\ late' = IF ~FUSE /\ fused THEN late + 1 ELSE late

\* ---- draw_batch
For == /\ pc = "for" /\ pc' = "blk"
       /\ UNCHANGED <<src, kind, skip, take, i, fused, late, rowOpen, rowRet, blkOpen, blkRet, out, n>>
Blk == /\ pc = "blk" /\ pc' = "row"
       /\ UNCHANGED <<src, kind, skip, take, i, fused, late, rowOpen, rowRet, blkOpen, blkRet, out, n>>
Row == /\ pc = "row" /\ Polled
       /\ LET v == PollVal IN
          IF IsNone(v) THEN
               /\ rowRet' = (IF rowOpen = <<>> THEN <<None>> ELSE rowOpen) /\ rowOpen' = <<>> /\ pc' = "blk.ret"
          ELSE IF rowOpen = <<>> THEN rowOpen' = <<v>> /\ pc' = "row" /\ UNCHANGED rowRet
          ELSE IF v.adj THEN rowOpen' = Append(rowOpen, v) /\ pc' = "row" /\ UNCHANGED rowRet
          ELSE rowRet' = rowOpen /\ rowOpen' = <<v>> /\ pc' = "blk.ret"
       /\ UNCHANGED <<src, kind, skip, take, blkOpen, blkRet, out, n>>
BlkRet == /\ pc = "blk.ret"
          /\ IF rowRet = <<None>> THEN
                  /\ blkRet' = (IF blkOpen = <<>> THEN <<None>> ELSE blkOpen) /\ blkOpen' = <<>> /\ pc' = "for.ret"
             ELSE IF blkOpen = <<>> THEN blkOpen' = rowRet /\ pc' = "row" /\ UNCHANGED blkRet
             ELSE IF rowRet[1].stk THEN blkOpen' = blkOpen \o rowRet /\ pc' = "row" /\ UNCHANGED blkRet
             ELSE blkRet' = blkOpen /\ blkOpen' = rowRet /\ pc' = "for.ret"
          /\ UNCHANGED <<src, kind, skip, take, i, fused, late, rowOpen, rowRet, out, n>>
ForRet == /\ pc = "for.ret"
          /\ IF blkRet = <<None>> THEN pc' = "done" /\ UNCHANGED out
             ELSE out' = out \o [j \in 1 .. Len(blkRet) |-> blkRet[j].id] /\ pc' = "blk"
          /\ UNCHANGED <<src, kind, skip, take, i, fused, late, rowOpen, rowRet, blkOpen, blkRet, n>>

\* ---- fill_contiguous, clipped path
CSkip == /\ pc = "c.skip"
         /\ IF n = 0 THEN pc' = "c.take" /\ n' = take /\ UNCHANGED <<i, fused, late>>
            ELSE /\ Polled
                 \* Iterator::nth stops at the first None; the caller does not look at what nth returned
                 /\ IF IsNone(PollVal) THEN pc' = "c.take" /\ n' = take ELSE n' = n - 1 /\ pc' = "c.skip"
         /\ UNCHANGED <<src, kind, skip, take, rowOpen, rowRet, blkOpen, blkRet, out>>
CTake == /\ pc = "c.take"
         /\ IF n = 0 THEN pc' = "done" /\ UNCHANGED <<i, fused, late, out, n>>
            ELSE /\ Polled
                 /\ IF IsNone(PollVal) THEN pc' = "done" /\ UNCHANGED <<out, n>>
                    ELSE out' = Append(out, PollVal.id) /\ n' = n - 1 /\ pc' = "c.take"
         /\ UNCHANGED <<src, kind, skip, take, rowOpen, rowRet, blkOpen, blkRet>>

Next == For \/ Blk \/ Row \/ BlkRet \/ ForRet \/ CSkip \/ CTake
Spec == Init /\ [][Next]_vars /\ WF_vars(Next)

Expected == IF kind = "batch" THEN Stream
            ELSE LET a == skip + 1  b == skip + take  m == Len(Stream) IN
                 IF a > m \/ a > b THEN <<>> ELSE SubSeq(Stream, a, IF b > m THEN m ELSE b)
IsPrefix(a, b) == Len(a) <= Len(b) /\ a = SubSeq(b, 1, Len(a))

\* C03 / C04: exactly the items of the stream (the slots before the first None), each once, in order
Drawn == pc = "done" => out = Expected
DrawnPrefix == IsPrefix(out, Expected)
\* the iterator the caller gave is never polled again once it has returned None
NoLatePoll == late = 0
Termination == <>(pc = "done")
=============================================================================
