\* negative control (defect 6: draw_batch polls the pixel iterator again after its first None): expected to FAIL
SPECIFICATION Spec
INVARIANT Drawn
INVARIANT DrawnPrefix
PROPERTY Termination
CHECK_DEADLOCK FALSE
CONSTANTS
  MAXLEN = 4
  FUSE = FALSE
  KINDS = {"batch"}
