\* negative control (defect 7: fill_contiguous ignores the None of its initial nth()): expected to FAIL
SPECIFICATION Spec
INVARIANT Drawn
INVARIANT DrawnPrefix
PROPERTY Termination
CHECK_DEADLOCK FALSE
CONSTANTS
  MAXLEN = 4
  FUSE = FALSE
  KINDS = {"contig"}
