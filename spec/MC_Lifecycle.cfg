SPECIFICATION Spec
INVARIANT FollowsLastSuccess
INVARIANT MatchesController
INVARIANT Spacing
CHECK_DEADLOCK FALSE
CONSTANTS
  MAXCALLS = 6
  FAULTS = 2
  FLAGFIRST = FALSE
  DELAYMS = 120
  SKIPREDUNDANT = FALSE
