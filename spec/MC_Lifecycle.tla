---------------------------- MODULE MC_Lifecycle ----------------------------
(***************************************************************************)
(* Sleep / wake life cycle (C13, with the failure cases of C12): the       *)
(* driver's `sleeping` flag, the controller's sleep state as decoded from  *)
(* the sleep-in (10h) / sleep-out (11h) commands that actually reached it, *)
(* and a virtual clock that only the delay source advances.  Each call is  *)
(* split into its steps (send the command, delay 120 ms, set the flag) so  *)
(* that a bus failure can hit before or after the command byte went out.   *)
(*                                                                         *)
(* FLAGFIRST = TRUE sets the flag before sending (a plausible refactoring) *)
(* and fails FollowsLastSuccess -- the negative control of this model.     *)
(* SKIPREDUNDANT = TRUE sends the command of a redundant call (sleep while *)
(* the flag says asleep, wake while awake) but skips its delay: the next   *)
(* opposite command then follows too closely (seeded change C13-r4m1).     *)
(***************************************************************************)
EXTENDS Integers, Sequences, TLC

CONSTANTS MAXCALLS, FAULTS, FLAGFIRST, DELAYMS, SKIPREDUNDANT

VARIABLES redundant, \* the call in progress found the flag already in the state it asks for
          flag,      \* Display::sleeping
          ctlSleep,  \* controller state (TRUE after reset; init wakes it)
          clk,       \* ms
          tslp,      \* time of the last 10h/11h that reached the controller (-1: none / not comparable)
          st, kind,  \* step of the call in progress
          n, budget,
          lastOk,    \* last successful of {init, sleep, wake}
          unknown,   \* a sleep/wake failed after its command may have gone out
          tooClose,  \* two sleep commands less than 120 ms apart on a failure-free stretch
          early      \* a call returned Ok less than 120 ms after its command
vars == <<redundant, flag, ctlSleep, clk, tslp, st, kind, n, budget, lastOk, unknown, tooClose, early>>

Init == /\ redundant = FALSE /\ flag = FALSE /\ ctlSleep = FALSE /\ clk = 0 /\ tslp = -1000 /\ st = "idle" /\ kind = "none"
        /\ n = 0 /\ budget = FAULTS /\ lastOk = "init" /\ unknown = FALSE /\ tooClose = FALSE /\ early = FALSE

Target == kind = "sleep"
Begin(k) == /\ st = "idle" /\ n < MAXCALLS /\ kind' = k /\ n' = n + 1
            /\ st' = "send" /\ redundant' = (flag = (k = "sleep"))
            /\ flag' = IF FLAGFIRST THEN (k = "sleep") ELSE flag
            /\ UNCHANGED <<ctlSleep, clk, tslp, budget, lastOk, unknown, tooClose, early>>
Send == /\ st = "send"
        /\ \/ \* the command reaches the controller and the transport reports success
              /\ ctlSleep' = Target /\ tslp' = clk
              /\ tooClose' = (tooClose \/ (~unknown /\ clk - tslp < 120))
              /\ IF SKIPREDUNDANT /\ redundant
                 THEN st' = "idle" /\ lastOk' = kind /\ early' = (early \/ clk - clk < 120)   \* returns Ok at the time of the command
                 ELSE st' = "delay" /\ UNCHANGED <<lastOk, early>>
              /\ UNCHANGED <<redundant, flag, clk, kind, n, budget, unknown>>
           \/ \* failure before the command byte went out
              /\ budget > 0 /\ budget' = budget - 1 /\ st' = "idle"
              /\ UNCHANGED <<redundant, flag, ctlSleep, clk, tslp, kind, n, lastOk, unknown, tooClose, early>>
           \/ \* failure after the command byte went out (D/C back high, empty parameter write)
              /\ budget > 0 /\ budget' = budget - 1 /\ st' = "idle" /\ ctlSleep' = Target /\ unknown' = TRUE /\ tslp' = clk
              /\ UNCHANGED <<redundant, flag, clk, kind, n, lastOk, tooClose, early>>
Delay == /\ st = "delay" /\ clk' = clk + DELAYMS /\ st' = "flag"
         /\ UNCHANGED <<redundant, flag, ctlSleep, tslp, kind, n, budget, lastOk, unknown, tooClose, early>>
SetFlag == /\ st = "flag" /\ flag' = Target /\ lastOk' = kind /\ st' = "idle" /\ unknown' = FALSE
           /\ early' = (early \/ clk - tslp < 120)
           /\ UNCHANGED <<redundant, ctlSleep, clk, tslp, kind, n, budget, tooClose>>
\* drawing, set_orientation, scrolling: no effect on any of this, and no time passes
Other == /\ st = "idle" /\ n < MAXCALLS /\ n' = n + 1
         /\ UNCHANGED <<redundant, flag, ctlSleep, clk, tslp, st, kind, budget, lastOk, unknown, tooClose, early>>

Next == Begin("sleep") \/ Begin("wake") \/ Send \/ Delay \/ SetFlag \/ Other
Spec == Init /\ [][Next]_vars

\* C13: is_sleeping() is true exactly when the last successful of {init, sleep, wake} was sleep
FollowsLastSuccess == st = "idle" => (flag = (lastOk = "sleep"))
\* C13: ... and equals the controller's state, unless a failed call left it undetermined
MatchesController == (st = "idle" /\ ~unknown) => flag = ctlSleep
\* C13: 120 ms after every sleep-in / sleep-out before the call returns; never two closer than that
Spacing == ~tooClose /\ ~early
=============================================================================
