\* negative control (flag set before the command is sent): expected to FAIL
SPECIFICATION Spec
INVARIANT FollowsLastSuccess
INVARIANT MatchesController
INVARIANT Spacing
CHECK_DEADLOCK FALSE
CONSTANTS
  MAXCALLS = 6
  FAULTS = 2
  FLAGFIRST = TRUE
  DELAYMS = 120
  SKIPREDUNDANT = FALSE
