\* negative control (delay shorter than 120 ms): expected to FAIL
SPECIFICATION Spec
INVARIANT FollowsLastSuccess
INVARIANT MatchesController
INVARIANT Spacing
CHECK_DEADLOCK FALSE
CONSTANTS
  MAXCALLS = 6
  FAULTS = 2
  FLAGFIRST = FALSE
  DELAYMS = 100
  SKIPREDUNDANT = FALSE
