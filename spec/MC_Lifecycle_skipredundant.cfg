\* negative control (a redundant sleep/wake sends its command but skips the 120 ms delay): expected to FAIL
SPECIFICATION Spec
INVARIANT FollowsLastSuccess
INVARIANT MatchesController
INVARIANT Spacing
CHECK_DEADLOCK FALSE
CONSTANTS
  MAXCALLS = 6
  FAULTS = 2
  FLAGFIRST = FALSE
  DELAYMS = 120
  SKIPREDUNDANT = TRUE
