---------------------------- MODULE MC_ModelInit ----------------------------
(***************************************************************************)
(* Design-level model of Builder::init for the 14 built-in models: the     *)
(* configuration check, the reset step (pin pulse or software reset), the  *)
(* interface-kind gate and the model's initialisation program (Models.tla) *)
(* are run through the environment (Wire / Controller) for every model,    *)
(* interface kind, option set and reset-pin choice, and judged by the same *)
(* predicates as recorded executions (Judge.tla): C09, C11, C13, C17.      *)
(***************************************************************************)
EXTENDS Judge, Driver, Models, TLC

VARIABLES sc, done, v
vars == <<sc, done, v>>

IfaceOf(kind) == CASE kind = "serial" -> "rec" [] kind = "p8" -> "rec_p8" [] OTHER -> "rec_p16"

Scenarios ==
  {[id |-> 0, kind |-> "display", faults |-> <<>>, tag |-> "", ncalls |-> 1,
    cfg |-> [model |-> m, W |-> FbSize(m)[1], H |-> FbSize(m)[2], w |-> FbSize(m)[1], h |-> FbSize(m)[2], ox |-> 0, oy |-> 0,
             rot |-> o.rot, mir |-> o.mir, bgr |-> bgr, inv |-> inv, refv |-> rv, refh |-> rh, rst |-> rst,
             iface |-> IfaceOf(kind), buf |-> 0, batch |-> TRUE, profile |-> "dev", colour |-> ColourOf(m)]] :
     m \in ModelNames, kind \in {"serial", "p8", "p16"}, o \in Orientations, bgr \in BOOLEAN, inv \in BOOLEAN,
     rv \in {0, 1}, rh \in {0, 1}, rst \in BOOLEAN}

\* Builder::init as the code has it: check, reset, gate, program
BuilderInit(c) ==
  LET verdict == DInitCheck(c)
      o == [rot |-> c.rot, mir |-> c.mir]
      reset == IF c.rst THEN <<<<"rst", 0, 1>>, <<"dly", 10, 0>>, <<"rst", 1, 1>>>> ELSE <<<<"cmd", 1, <<>>, 1>>>>
  IN IF verdict # "ok" THEN [res |-> "err", err |-> <<"InvalidConfiguration", verdict>>, ops |-> <<>>]
     ELSE IF Refuses(c.model, Kind(c.iface))
          THEN [res |-> "err", err |-> <<"InvalidConfiguration", "UnsupportedInterface">>, ops |-> reset]
     ELSE [res |-> "ok", err |-> <<>>, ops |-> reset \o Concrete(c.model, MadctlFromOptions(c, o), c.inv)]

Init == sc \in Scenarios /\ done = FALSE /\ v = <<>>
Next == /\ ~done /\ done' = TRUE /\ sc' = sc
        /\ LET c == sc.cfg
               b == BuilderInit(c)
               w0 == WireNew(c.W, c.H, c.iface, c.model = "rm67162", c.rst)
               w1 == RunOps(w0, b.ops)
               o == [rot |-> c.rot, mir |-> c.mir]
               r == [id |-> 0, i |-> 1, name |-> "init", res |-> b.res, err |-> b.err, errk |-> 0, pmsg |-> "", ploc |-> "",
                     ops |-> b.ops, nf |-> 0, x |-> [none |-> 0],
                     obs |-> [rot |-> c.rot, mir |-> c.mir, sleeping |-> FALSE, size |-> LogicalSize(c, o)]]
           IN v' = JudgeInit(sc, w0, w1, r)
Spec == Init /\ [][Next]_vars
Holds == v = <<>>
=============================================================================
