----------------------------- MODULE MC_ParXfer -----------------------------
(***************************************************************************)
(* The HOW of ParallelInterface (interface/parallel.rs) above the bus: the *)
(* D/C line, the write strobe and the three Interface methods as a step    *)
(* machine with one step per pin operation -- send_word (WR low, set the   *)
(* bus, WR high), send_command (D/C low, instruction, D/C high,            *)
(* parameters), send_pixels, and send_repeated_pixel with its strobe-only  *)
(* fast path for pixels whose words are all equal.  The controller latches *)
(* (D/C, bus) at every rising edge of WR.  set_value is atomic here (its   *)
(* pin-level behaviour is MC_Parallel).  Properties: C07 (latched words    *)
(* are exactly the words to send, D/C low only at the instruction), C12    *)
(* (a failure ends the call, nothing is strobed afterwards), termination.  *)
(*                                                                         *)
(* FASTALL = FALSE models `is_same` comparing only the first two words     *)
(* (negative control, expected to fail).                                   *)
(*                                                                         *)
(* CNTMOD models the machine word in which the strobe count  count * N  of *)
(* the fast path is computed.  The repeat count itself is a machine word   *)
(* (count < CNTMOD), the product need not be: CNTMOD = 0 is the repaired   *)
(* code (product formed in a type twice as wide, never wraps); CNTMOD = k  *)
(* is the pinned tree (defect 5): product formed modulo k -- with overflow *)
(* checks the call panics (pc = "panic"), without them it wraps and the    *)
(* loop `for _ in 1 .. product` runs product - 1 times, or not at all if   *)
(* the product wrapped to 0.  PANICS chooses between the two build modes.  *)
(***************************************************************************)
EXTENDS Integers, Sequences, FiniteSets, TLC

CONSTANTS NS, MAXCOUNT, FAULTS, FASTALL, CNTMOD, PANICS
ASSUME CNTMOD = 0 \/ MAXCOUNT < CNTMOD

VARIABLES call, pc, dc, wr, bus, q, strobes, next, samples, budget, err
vars == <<call, pc, dc, wr, bus, q, strobes, next, samples, budget, err>>

Vals == {1, 2}
Pixels(n) == [1 .. n -> Vals]
Calls ==
  {[kind |-> "cmd", cmd |-> 7, params |-> p, pixel |-> <<>>, pixels |-> <<>>, count |-> 0] : p \in {<<>>, <<1>>, <<1, 1>>, <<2, 1, 2>>}}
  \cup UNION {{[kind |-> "rep", cmd |-> 0, params |-> <<>>, pixel |-> px, pixels |-> <<>>, count |-> c] :
                 px \in Pixels(n), c \in 0 .. MAXCOUNT} : n \in NS}
  \cup UNION {{[kind |-> "px", cmd |-> 0, params |-> <<>>, pixel |-> <<>>, pixels |-> <<px1, px2>>, count |-> 2] :
                 px1 \in Pixels(n), px2 \in Pixels(n)} : n \in NS}

Init == /\ call \in Calls
        /\ dc = 1 /\ wr = 1 /\ bus = 0 /\ samples = <<>> /\ budget = FAULTS /\ err = "" /\ strobes = 0
        /\ pc = (CASE call.kind = "cmd" -> "c.dc0" [] call.kind = "px" -> "p.start" [] OTHER -> "r.start")
        /\ q = <<>> /\ next = "ret"

Flat(pxs) == IF pxs = <<>> THEN <<>> ELSE [j \in 1 .. Len(pxs) * Len(pxs[1]) |-> pxs[((j - 1) \div Len(pxs[1])) + 1][((j - 1) % Len(pxs[1])) + 1]]
Rep(px, c) == [j \in 1 .. c * Len(px) |-> px[((j - 1) % Len(px)) + 1]]
AllSame(px) == IF FASTALL THEN \A i \in 1 .. Len(px) : px[i] = px[1]
               ELSE Len(px) = 1 \/ px[1] = px[2]            \* the faulty shortcut

Wraps(p) == CNTMOD # 0 /\ p >= CNTMOD
Product(p) == IF CNTMOD = 0 THEN p ELSE p % CNTMOD
Max0(x) == IF x < 0 THEN 0 ELSE x

Fail(kind) == /\ budget > 0 /\ budget' = budget - 1 /\ pc' = "err" /\ err' = kind
              /\ UNCHANGED <<call, dc, wr, bus, q, strobes, next, samples>>
Ok(pcn) == pc' = pcn /\ UNCHANGED <<budget, err>>

\* ---- send_word for every word of q, then continue at `next`
WLo == /\ pc = "w.lo"
       /\ \/ wr' = 0 /\ Ok("w.bus") /\ UNCHANGED <<call, dc, bus, q, strobes, next, samples>>
          \/ Fail("Wr")
WBus == /\ pc = "w.bus"
        /\ \/ bus' = Head(q) /\ Ok("w.hi") /\ UNCHANGED <<call, dc, wr, q, strobes, next, samples>>
           \/ Fail("Bus")
WHi == /\ pc = "w.hi"
       /\ \/ /\ wr' = 1 /\ samples' = Append(samples, <<dc, bus>>) /\ q' = Tail(q)
             /\ Ok(IF Tail(q) = <<>> THEN next ELSE "w.lo") /\ UNCHANGED <<call, dc, bus, strobes, next>>
          \/ Fail("Wr")
Words(ws, nxt) == IF ws = <<>> THEN pc' = nxt /\ UNCHANGED <<q, next>> ELSE pc' = "w.lo" /\ q' = ws /\ next' = nxt

\* ---- send_command
CDc0 == /\ pc = "c.dc0"
        /\ \/ dc' = 0 /\ q' = <<call.cmd>> /\ next' = "c.dc1" /\ Ok("w.lo") /\ UNCHANGED <<call, wr, bus, strobes, samples>>
           \/ Fail("Dc")
CDc1 == /\ pc = "c.dc1"
        /\ \/ /\ dc' = 1 /\ Words(call.params, "ret") /\ UNCHANGED <<call, wr, bus, strobes, samples, budget, err>>
           \/ Fail("Dc")
\* ---- send_pixels
PStart == pc = "p.start" /\ Words(Flat(call.pixels), "ret") /\ UNCHANGED <<call, dc, wr, bus, strobes, samples, budget, err>>
\* ---- send_repeated_pixel
RStart == /\ pc = "r.start"
          /\ IF call.count = 0 THEN pc' = "ret" /\ UNCHANGED <<q, next, strobes>>
             ELSE IF AllSame(call.pixel)
                  THEN IF Wraps(call.count * Len(call.pixel)) /\ PANICS
                       THEN pc' = "w.lo" /\ q' = <<call.pixel[1]>> /\ next' = "panic" /\ UNCHANGED strobes
                       ELSE pc' = "w.lo" /\ q' = <<call.pixel[1]>> /\ next' = "r.strobe"
                            /\ strobes' = Max0(Product(call.count * Len(call.pixel)) - 1)
                  ELSE Words(Rep(call.pixel, call.count), "ret") /\ UNCHANGED strobes
          /\ UNCHANGED <<call, dc, wr, bus, samples, budget, err>>
RStrobe == /\ pc = "r.strobe"
           /\ IF strobes = 0 THEN pc' = "ret" /\ UNCHANGED <<wr, strobes, budget, err>>
              ELSE \/ wr' = 0 /\ Ok("r.strobe.hi") /\ UNCHANGED strobes
                   \/ Fail("Wr") /\ UNCHANGED <<wr, strobes>>
           /\ UNCHANGED <<call, dc, bus, q, next, samples>>
RStrobeHi == /\ pc = "r.strobe.hi"
             /\ \/ /\ wr' = 1 /\ samples' = Append(samples, <<dc, bus>>) /\ strobes' = strobes - 1 /\ Ok("r.strobe")
                   /\ UNCHANGED <<call, dc, bus, q, next>>
                \/ Fail("Wr")

Next == WLo \/ WBus \/ WHi \/ CDc0 \/ CDc1 \/ PStart \/ RStart \/ RStrobe \/ RStrobeHi
Spec == Init /\ [][Next]_vars /\ WF_vars(Next)

Expected == CASE call.kind = "cmd" -> <<<<0, call.cmd>>>> \o [i \in 1 .. Len(call.params) |-> <<1, call.params[i]>>]
              [] call.kind = "px" -> LET f == Flat(call.pixels) IN [i \in 1 .. Len(f) |-> <<1, f[i]>>]
              [] OTHER -> LET f == Rep(call.pixel, call.count) IN [i \in 1 .. Len(f) |-> <<1, f[i]>>]
IsPrefix(a, b) == Len(a) <= Len(b) /\ a = SubSeq(b, 1, Len(a))

\* C07: at return the controller latched exactly the words to send, D/C low only at the instruction's edge
Latched == pc = "ret" => (samples = Expected /\ dc = 1)
\* C12 / C07: at any moment, and in particular after a failure, what was latched is a prefix of what was to be sent
PrefixAlways == IsPrefix(samples, Expected)
ErrNamed == pc = "err" => err \in {"Wr", "Bus", "Dc"}
NoPanic == pc # "panic"
Termination == <>(pc \in {"ret", "err", "panic"})
=============================================================================
