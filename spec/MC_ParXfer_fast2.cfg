\* negative control (is_same looks at the first two words only): expected to FAIL
SPECIFICATION Spec
INVARIANT Latched
INVARIANT PrefixAlways
INVARIANT ErrNamed
INVARIANT NoPanic
PROPERTY Termination
CHECK_DEADLOCK FALSE
CONSTANTS
  NS = {1, 2, 3}
  MAXCOUNT = 3
  FAULTS = 1
  FASTALL = FALSE
  CNTMOD = 0
  PANICS = FALSE
