\* negative control (defect 5, overflow checks on: count * N panics): expected to FAIL
SPECIFICATION Spec
INVARIANT Latched
INVARIANT PrefixAlways
INVARIANT ErrNamed
INVARIANT NoPanic
PROPERTY Termination
CHECK_DEADLOCK FALSE
CONSTANTS
  NS = {1, 2, 3}
  MAXCOUNT = 7
  FAULTS = 1
  FASTALL = TRUE
  CNTMOD = 8
  PANICS = TRUE
