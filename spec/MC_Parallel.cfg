SPECIFICATION Spec
INVARIANT CacheHonest
INVARIANT PinsShowLast
PROPERTY Termination
CHECK_DEADLOCK FALSE
CONSTANTS
  PINS = 3
  MAXLEN = 3
  FAULTS = 2
  USETAKE = TRUE
