---------------------------- MODULE MC_Parallel ----------------------------
(***************************************************************************)
(* The HOW of interface/parallel.rs as a step machine over a PINS-bit bus: *)
(* the change-mask cache of Generic{8,16}BitBus::set_value (last.take(),   *)
(* per-pin conditional writes, cache written back only after success),     *)
(* send_word (WR low, set_value, WR high) and the strobe-only fast path of *)
(* send_repeated_pixel.  A data-pin failure can be injected at every pin   *)
(* write, in both effect modes (the level did / did not change).           *)
(* Properties: C07 (latched words, pins always show the last value written *)
(* successfully), C12 (a failure ends the call).                           *)
(*                                                                         *)
(* USETAKE = FALSE drops the `last.take()` (the cache keeps claiming the old  *)
(* value while the pins are being rewritten): the model then fails         *)
(* PinsShowLast -- kept as a negative control of the model itself.         *)
(***************************************************************************)
EXTENDS Integers, Sequences, FiniteSets, TLC

CONSTANTS PINS, MAXLEN, FAULTS, USETAKE

Words == 0 .. (2 ^ PINS - 1)
BitOf(v, b) == (v \div (2 ^ b)) % 2
None == -1

VARIABLES todo,     \* words still to be sent by the current program (sequence of set_value arguments)
          pins,     \* level of each data pin
          last,     \* the cache: None or a word
          st,       \* "idle" | "pin" (inside set_value) 
          cur, old, b,   \* set_value in progress: target word, cache content taken, next pin index
          budget,
          shown,    \* argument of the most recent set_value call that returned
          failedAt, \* number of set_value calls that failed so far
          lastOk    \* the most recent set_value call returned Ok
vars == <<todo, pins, last, st, cur, old, b, budget, shown, failedAt, lastOk>>

Programs == UNION {[1 .. n -> Words] : n \in 1 .. MAXLEN}

Init == /\ todo \in Programs
        /\ pins \in [0 .. PINS - 1 -> {0, 1}]       \* unknown levels at power-up
        /\ last = None /\ st = "idle" /\ cur = 0 /\ old = None /\ b = 0
        /\ budget = FAULTS /\ shown = None /\ failedAt = 0 /\ lastOk = FALSE

PinWord == LET F[k \in 0 .. PINS] == IF k = 0 THEN 0 ELSE F[k - 1] + pins[k - 1] * 2 ^ (k - 1) IN F[PINS]

\* set_value(value): early return if the cache already holds it
Begin == /\ st = "idle" /\ todo # <<>>
         /\ LET v == Head(todo) IN
            IF last = v THEN /\ todo' = Tail(todo) /\ shown' = v /\ lastOk' = TRUE
                             /\ UNCHANGED <<pins, last, st, cur, old, b, budget, failedAt>>
            ELSE /\ cur' = v /\ old' = last /\ b' = 0 /\ st' = "pin"
                 /\ last' = IF USETAKE THEN None ELSE last
                 /\ UNCHANGED <<todo, pins, budget, shown, failedAt, lastOk>>

Changed(k) == old = None \/ BitOf(cur, k) # BitOf(old, k)

\* one pin of the macro-expanded sequence
Pin == /\ st = "pin" /\ b < PINS
       /\ IF ~Changed(b) THEN b' = b + 1 /\ UNCHANGED <<todo, pins, last, st, cur, old, budget, shown, failedAt, lastOk>>
          ELSE \/ /\ pins' = [pins EXCEPT ![b] = BitOf(cur, b)] /\ b' = b + 1
                  /\ UNCHANGED <<todo, last, st, cur, old, budget, shown, failedAt, lastOk>>
               \/ /\ budget > 0 /\ budget' = budget - 1            \* the pin write fails ...
                  /\ \/ UNCHANGED pins                             \* ... and the level did not change
                     \/ pins' = [pins EXCEPT ![b] = BitOf(cur, b)] \* ... although the level did change
                  /\ st' = "idle" /\ todo' = Tail(todo) /\ failedAt' = failedAt + 1 /\ lastOk' = FALSE /\ shown' = cur
                  /\ UNCHANGED <<last, cur, old, b>>
End == /\ st = "pin" /\ b = PINS
       /\ last' = cur /\ shown' = cur /\ st' = "idle" /\ todo' = Tail(todo) /\ lastOk' = TRUE
       /\ UNCHANGED <<pins, cur, old, b, budget, failedAt>>

Next == Begin \/ Pin \/ End
Spec == Init /\ [][Next]_vars /\ WF_vars(Next)

\* C07: whenever set_value has just returned Ok, the data pins show that value -- after any history
PinsShowLast == (st = "idle" /\ lastOk) => PinWord = shown
\* the cache never claims a value the pins do not hold
CacheHonest == (st = "idle" /\ last # None) => PinWord = last
Termination == <>(todo = <<>> /\ st = "idle")
=============================================================================
