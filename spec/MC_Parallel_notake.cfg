\* negative control: without last.take() the cache lies after a failure; expected to FAIL
SPECIFICATION Spec
INVARIANT CacheHonest
INVARIANT PinsShowLast
PROPERTY Termination
CHECK_DEADLOCK FALSE
CONSTANTS
  PINS = 3
  MAXLEN = 3
  FAULTS = 2
  USETAKE = FALSE
