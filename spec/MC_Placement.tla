---------------------------- MODULE MC_Placement ----------------------------
(***************************************************************************)
(* Design-level model: the driver layer (Driver / Batch / Clip, i.e. what  *)
(* the code sends) composed with the environment (Wire / Controller, i.e.  *)
(* what a MIPI-DCS controller makes of it) is checked against the abstract *)
(* layer (Geometry / Abstract, i.e. what the properties demand), for every *)
(* small framebuffer, window and orientation and every short program of    *)
(* drawing and orientation calls.  Properties: C01, C02, C03, C04, C08,    *)
(* C10, C20 at design level.  The explored transitions are exported as     *)
(* programs for the real code (ACTION_CONSTRAINT Export).                  *)
(***************************************************************************)
EXTENDS Wire, Abstract, Driver, TLC, Json

CONSTANTS MAXW, MAXH,      \* framebuffers 1..MAXW x 1..MAXH
          DEPTH,           \* program length
          OOB,             \* include out-of-range arguments (C02) or stay inside the precondition (C01)
          REORIENT,        \* include set_orientation calls (C10)
          BIGSET,          \* full rectangle / stream alphabet or the reduced one
          SAMPLE,          \* export every SAMPLE-th explored transition (0 = none)
          STREAMLEN,       \* > 0: only draw_iter, with every stream of that length or less over the cells (C03)
          RING,            \* width of the ring of out-of-range positions around the display used when OOB
          STOREORIENT,     \* FALSE: set_orientation as the pinned tree had it before the repair (never stored)
          FILTERED,        \* FALSE: draw_iter as the pinned tree had it before the repair (negative control)
          TWOCOLOURS       \* every call draws from the colours {1, 2}: later calls repeat colours of earlier ones, which
                           \* is what state surviving between calls (staging buffers, bus caches) needs to show

VARIABLES cfg,    \* configuration (framebuffer, window, options)
          d,      \* driver-layer state (Driver.tla)
          o,      \* abstract layer: the orientation the display must behave as
          w,      \* environment: wire + controller
          img,    \* abstract layer: the required picture
          n,      \* calls so far
          ok,     \* verdict of the last call (conjunction of the per-call predicates)
          o0,     \* the orientation the display was built with
          prog    \* history: the calls so far (hidden by VIEW)
vars == <<cfg, d, o, w, img, n, ok, o0, prog>>
View == <<cfg, d, o, w.ctl.fb, w.ctl.madctl, img, n, ok>>

Cfgs == {[model |-> "tiny565", W |-> W, H |-> H, w |-> ww, h |-> hh, ox |-> ox, oy |-> oy,
          bgr |-> FALSE, inv |-> FALSE, refv |-> 0, refh |-> 0, rst |-> TRUE, colour |-> "565",
          iface |-> "rec", buf |-> 64, batch |-> b] :
            W \in 1 .. MAXW, H \in 1 .. MAXH, ww \in 1 .. MAXW, hh \in 1 .. MAXH,
            ox \in 0 .. MAXW - 1, oy \in 0 .. MAXH - 1, b \in BOOLEAN}
ValidCfgs == {c \in Cfgs : c.w <= c.W /\ c.h <= c.H /\ c.ox + c.w <= c.W /\ c.oy + c.h <= c.H
                           /\ (c.W = MAXW \/ c.H = MAXH \/ c.W * c.H <= 2)}

InitOps(c, oo) == <<Cmd(17, <<>>), <<"dly", 120000, 0>>, Cmd(54, <<MadctlFromOptions(c, oo)>>), Cmd(32, <<>>),
                    Cmd(58, <<85>>), Cmd(41, <<>>)>>

Init == /\ cfg \in ValidCfgs
        /\ o \in Orientations
        /\ o0 = o
        /\ d = DNew(cfg, o)
        /\ w = RunOps(WireNew(cfg.W, cfg.H, cfg.iface, FALSE, FALSE), InitOps(cfg, o))
        /\ img = <<>>
        /\ n = 0
        /\ ok = TRUE
        /\ prog = <<>>

LS == LogicalSize(cfg, o)
Lo == IF OOB THEN -RING ELSE 0
Cells == (Lo .. LS[1] - 1 - Lo) \X (Lo .. LS[2] - 1 - Lo)
InCells == (0 .. LS[1] - 1) \X (0 .. LS[2] - 1)
Rects == IF BIGSET
         THEN {<<x, y, rw, rh>> : x \in -1 .. LS[1] + 1, y \in -1 .. LS[2] + 1, rw \in 0 .. LS[1] + 1, rh \in 0 .. LS[2] + 1}
         ELSE {<<x, y, rw, rh>> : x \in {-1, 0, LS[1] - 1}, y \in {-1, 0, LS[2] - 1}, rw \in {0, 1, LS[1], LS[1] + 1}, rh \in {1, LS[2] + 1}}
UseRects == IF OOB THEN Rects ELSE {r \in Rects : RectInBox(cfg, o, r)}
Lens(r) == {0, 1, r[3] * r[4], r[3] * r[4] + 3, -1} \cup (IF r[3] * r[4] > 1 THEN {r[3] * r[4] - 1} ELSE {})
RECURSIVE SeqsUpTo(_, _)
SeqsUpTo(S, k) == IF k = 0 THEN {<<>>} ELSE LET shorter == SeqsUpTo(S, k - 1) IN
                  shorter \cup {Append(q, e) : q \in {t \in shorter : Len(t) = k - 1}, e \in S}
AllStreams == {[i \in 1 .. Len(q) |-> <<q[i][1], q[i][2], i>>] : q \in SeqsUpTo(Cells, STREAMLEN)}
Streams == IF STREAMLEN > 0 THEN AllStreams ELSE IF BIGSET
           THEN {<<>>} \cup {<<<<p[1], p[2], 1>>>> : p \in Cells}
                \cup {<<<<p[1], p[2], 1>>, <<q[1], q[2], 2>>>> : p \in Cells, q \in Cells}
                \cup {<<<<p[1], p[2], 1>>, <<p[1] + 1, p[2], 2>>, <<q[1], q[2], 3>>>> : p \in Cells, q \in Cells}
                \cup {<<<<p[1], p[2], 1>>, <<p[1], p[2] + 1, 2>>, <<q[1], q[2], 3>>>> : p \in Cells, q \in Cells}
           ELSE {<<<<p[1], p[2], 1>>, <<q[1], q[2], 2>>>> : p \in Cells, q \in InCells}

\* one call: driver layer -> environment, abstract layer -> required picture, then the predicates
Do(call) ==
  LET r0 == IF call.name = "draw_iter" /\ ~FILTERED THEN DDrawIterPrefix(d, call.px) ELSE DCall(d, call.name, call)
      r == IF call.name = "set_orientation" /\ ~STOREORIENT THEN [r0 EXCEPT !.d.orient = d.orient] ELSE r0
      w1 == RunOps(w, r.ops)
      isO == call.name = "set_orientation"
      o1 == IF isO THEN [rot |-> call.rot, mir |-> call.mir] ELSE o
      exp == AExpected(img, cfg, o, call.name, call)
      fb == w1.ctl.fb
      isDT == call.name \in {"draw_iter", "fill_solid", "fill_contiguous", "clear"}
      fr == IF isO THEN "" ELSE FramingErrors(w.ctl, w1.cmds, WordsPerPixel(w1.ctl), isDT)
      vis == IF call.name \in {"fill_solid", "fill_contiguous"} THEN VisibleArea(cfg, o, call.rect) ELSE 1
  IN /\ n < DEPTH
     /\ n' = n + 1
     /\ d' = r.d
     /\ w' = w1
     /\ o' = o1
     /\ img' = exp
     /\ prog' = Append(prog, call)
     /\ o0' = o0 /\ cfg' = cfg
     /\ ok' = /\ ~r.panic                                                          \* C02
              /\ fb = exp                                                          \* C01 C02 C03 C04 C10
              /\ \A c \in DOMAIN fb : InWindow(cfg, c)                             \* C02
              /\ w1.ctl.flags \cap {"oob_addr", "start_gt_end", "overrun", "partial_pixel", "short_params",
                                    "extra_params", "unsupported_format"} = {}     \* C02 C08
              /\ fr = ""                                                           \* C08
              /\ r.d.orient = o1 /\ w1.ctl.madctl = MadctlOf(cfg.bgr, o1, cfg.refv, cfg.refh)   \* C10 C14
              /\ (call.name \in {"fill_solid", "fill_contiguous", "clear"} /\ vis > 0) => Num2C(w1.cmds) = 1   \* C20
              /\ (call.name = "draw_iter") => Num2C(w1.cmds) <= NumInBox(cfg, o, call.px)                       \* C20

Next ==
  IF STREAMLEN > 0 THEN \E st \in Streams : Do([name |-> "draw_iter", px |-> st]) ELSE
  \/ \E p \in InCells, c \in {1, 2} : Do([name |-> "set_pixel", x |-> p[1], y |-> p[2], c |-> c])
  \/ \E r \in {q \in UseRects : RectInBox(cfg, o, q) /\ ~REmpty(q)} :
        Do([name |-> "set_pixels", win |-> <<r[1], r[2], RRight(r), RBottom(r)>>,
            colors |-> [i \in 1 .. r[3] * r[4] |-> IF TWOCOLOURS THEN 1 + ((i + 1) % 2) ELSE 10 + i]])
  \/ \E r \in UseRects, c \in (IF TWOCOLOURS THEN {1, 2} ELSE {3}) : Do([name |-> "fill_solid", rect |-> r, c |-> c])
  \/ \E r \in UseRects : \E len \in (IF TWOCOLOURS THEN {-1} ELSE Lens(r)) :
        Do([name |-> "fill_contiguous", rect |-> r, colors |-> [start |-> IF TWOCOLOURS THEN 1 ELSE 20, len |-> len]])
  \/ \E st \in Streams : Do([name |-> "draw_iter", px |-> st])
  \/ \E c \in (IF TWOCOLOURS THEN {1, 2} ELSE {4}) : Do([name |-> "clear", c |-> c])
  \/ REORIENT /\ \E oo \in Orientations : Do([name |-> "set_orientation", rot |-> oo.rot, mir |-> oo.mir])

Spec == Init /\ [][Next]_vars

Holds == ok
\* the two definitions of the address mode (transcribed setters vs. the MIPI table) agree, PlaceInv inverts Place
Consistent == /\ d.madctl = MadctlOf(cfg.bgr, d.orient, cfg.refv, cfg.refh)
              /\ \A p \in InCells : PlaceInv(cfg, o, Place(cfg, o, p[1], p[2])) = p
              /\ \A p \in InCells : InWindow(cfg, Place(cfg, o, p[1], p[2]))

\* scenario export: one line per explored transition (program = witness path to the state + the call)
Export == (SAMPLE > 0 /\ TLCGet("generated") % SAMPLE = 0) =>
            PrintT(<<"EDGE", ToJson([cfg |-> cfg, o0 |-> o0, calls |-> prog'])>>)
=============================================================================
