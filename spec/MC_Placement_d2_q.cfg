SPECIFICATION Spec
INVARIANT Holds
INVARIANT Consistent
VIEW View
ACTION_CONSTRAINT Export
CHECK_DEADLOCK FALSE
CONSTANTS
  U16MAX = 65535
  PROFILE = "debug"
  ROWCAP = 50
  BLOCKCAP = 100
  MAXW = 2
  MAXH = 2
  DEPTH = 2
  OOB = TRUE
  REORIENT = TRUE
  BIGSET = FALSE
  SAMPLE = 31
  STREAMLEN = 0
  TWOCOLOURS = FALSE
  RING = 1
  FILTERED = TRUE
  STOREORIENT = TRUE
