\* negative control: draw_iter of the pinned tree before the repair (defect 2); expected to FAIL
SPECIFICATION Spec
INVARIANT Holds
INVARIANT Consistent
VIEW View
ACTION_CONSTRAINT Export
CHECK_DEADLOCK FALSE
CONSTANTS
  U16MAX = 3
  PROFILE = "debug"
  ROWCAP = 2
  BLOCKCAP = 4
  MAXW = 3
  MAXH = 3
  DEPTH = 1
  OOB = TRUE
  REORIENT = FALSE
  BIGSET = FALSE
  SAMPLE = 0
  STREAMLEN = 2
  TWOCOLOURS = FALSE
  RING = 2
  FILTERED = FALSE
  STOREORIENT = TRUE
