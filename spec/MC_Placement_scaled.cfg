\* machine width scaled to U16MAX = 3: coordinates 4, 5 alias onto 0, 1 under `as u16`; every window / block sum that could
\* overflow a u16 is reachable in this tiny model (C02, C08 at design level)
SPECIFICATION Spec
INVARIANT Holds
INVARIANT Consistent
VIEW View
ACTION_CONSTRAINT Export
CHECK_DEADLOCK FALSE
CONSTANTS
  U16MAX = 3
  PROFILE = "debug"
  ROWCAP = 2
  BLOCKCAP = 4
  MAXW = 3
  MAXH = 3
  DEPTH = 1
  OOB = TRUE
  REORIENT = FALSE
  BIGSET = FALSE
  SAMPLE = 0
  STREAMLEN = 2
  TWOCOLOURS = FALSE
  RING = 2
  FILTERED = TRUE
  STOREORIENT = TRUE
