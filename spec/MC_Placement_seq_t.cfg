SPECIFICATION Spec
INVARIANT Holds
INVARIANT Consistent
VIEW View
ACTION_CONSTRAINT Export
CHECK_DEADLOCK FALSE
CONSTANTS
  U16MAX = 65535
  PROFILE = "debug"
  ROWCAP = 50
  BLOCKCAP = 100
  MAXW = 2
  MAXH = 2
  DEPTH = 3
  OOB = FALSE
  REORIENT = FALSE
  BIGSET = FALSE
  SAMPLE = 211
  STREAMLEN = 0
  TWOCOLOURS = TRUE
  RING = 1
  FILTERED = TRUE
  STOREORIENT = TRUE
