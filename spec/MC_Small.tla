------------------------------ MODULE MC_Small ------------------------------
(***************************************************************************)
(* Design-level checks of the arithmetic-shaped parts of the driver layer  *)
(* against the abstract layer, exhaustively at scaled machine widths:      *)
(*   "init"    C09  Builder::init's configuration check  = InitVerdict     *)
(*   "scroll"  C16  set_vertical_scroll_region           = the scroll spec *)
(*   "madctl"  C14  the masked setters, any order        = MadctlOf        *)
(*   "group"   C15  rotate / flips as orientation.rs has them = geometry   *)
(*   "angle"   C15  try_from_degree as the code computes it  = residue rule*)
(*   "clip16"  C04  16-bit-pointer take/nth helpers      = the host ones   *)
(* One state per case, so the state count is the number of cases checked.  *)
(* NARROW = TRUE switches to the u16 arithmetic of the pinned tree before  *)
(* the repairs (negative controls, expected to fail).                      *)
(***************************************************************************)
EXTENDS Integers, Sequences, FiniteSets, TLC, SequencesExt, Abstract, Driver, Controller

L(fW, fH, pw, ph, pox, poy) == INSTANCE LemmaDefs WITH W <- fW, H <- fH, w <- pw, h <- ph, ox <- pox, oy <- poy

CONSTANTS KIND, NARROW

VARIABLE case
U == 0 .. U16MAX

Cases ==
  CASE KIND = "init" -> {<<w, h, ox, oy, W, H>> : w \in U, h \in U, ox \in U, oy \in U, W \in 1 .. U16MAX, H \in {1, 2, U16MAX}}
    [] KIND = "scroll" -> {<<t, b, rows>> : t \in U, b \in U, rows \in 1 .. U16MAX}
    [] KIND = "madctl" -> {<<b0, s1, s2, s3>> : b0 \in {8 * k : k \in 0 .. 31} \cup {4 * k : k \in 0 .. 63}, s1 \in 1 .. 14, s2 \in 0 .. 14, s3 \in {0, 1, 5, 11, 14}}
    [] KIND = "group" -> {<<r, m, a, b, c, d>> : r \in 0 .. 3, m \in BOOLEAN, a \in 0 .. 6, b \in 0 .. 6, c \in 0 .. 6, d \in 0 .. 6}
    [] KIND = "angle" -> {<<a>> : a \in -1500 .. 1500}
    [] KIND = "lemmadefs" -> {<<fW, fH, pw, ph, pox, poy, rot, mir>> : fW \in 1 .. 3, fH \in 1 .. 3, pw \in 1 .. 3, ph \in 1 .. 3,
                                pox \in 0 .. 2, poy \in 0 .. 2, rot \in 0 .. 3, mir \in BOOLEAN}
    [] OTHER -> {<<len, n, take, skip>> : len \in -1 .. 6, n \in 0 .. 8, take \in 0 .. 3, skip \in 0 .. 3}

Init == case \in Cases
Next == UNCHANGED case
Spec == Init /\ [][Next]_case

---------------------------------------------------------------------------
\* C09
InitNarrow(c) ==     \* the check without the u32 widening (wraps / panics in u16)
  IF c.w = 0 \/ c.h = 0 \/ c.w > c.W \/ c.h > c.H THEN "InvalidDisplaySize"
  ELSE IF Bad(AddU16(c.w, c.ox)) \/ Bad(AddU16(c.h, c.oy)) THEN "panic"
  ELSE IF AddU16(c.w, c.ox) > c.W THEN "InvalidDisplayOffset"
  ELSE IF AddU16(c.h, c.oy) > c.H THEN "InvalidDisplayOffset" ELSE "ok"
InitOk(c) == LET cfg == [w |-> c[1], h |-> c[2], ox |-> c[3], oy |-> c[4], W |-> c[5], H |-> c[6]] IN
             (IF NARROW THEN InitNarrow(cfg) ELSE DInitCheck(cfg)) = InitVerdict(cfg)

\* C16
ScrollNarrow(t, b, rows) == LET s == AddU16(t, b) IN
  IF Bad(s) THEN <<-1, -1, -1>> ELSE IF s > rows THEN <<rows, 0, 0>> ELSE <<t, rows - t - b, b>>
ScrollWide(t, b, rows) == IF t + b > rows THEN <<rows, 0, 0>> ELSE <<t, rows - t - b, b>>
ScrollOk(c) == LET r == IF NARROW THEN ScrollNarrow(c[1], c[2], c[3]) ELSE ScrollWide(c[1], c[2], c[3]) IN
  /\ r[1] >= 0 /\ r[1] + r[2] + r[3] = c[3]
  /\ (c[1] + c[2] <= c[3]) => (r[1] = c[1] /\ r[3] = c[2])
  \* and the driver layer sends exactly that
  /\ NARROW \/ DScrollRegion([cfg |-> [H |-> c[3]]], c[1], c[2]).ops = <<Cmd(51, Vscrdef(r[1], r[2], r[3]))>>

\* C14: setters numbered 1..14: 1-2 colour order, 3-10 orientation, 11-14 refresh order; 0 = none
Setter(k) == IF k <= 2 THEN <<"c", k = 2>>
             ELSE IF k <= 10 THEN <<"o", [rot |-> (k - 3) \div 2, mir |-> (k - 3) % 2 = 1]>>
             ELSE <<"r", (k - 11) \div 2, (k - 11) % 2>>
ApplySetter(b, k) == IF k = 0 THEN b ELSE LET s == Setter(k) IN
  CASE s[1] = "c" -> WithColorOrder(b, s[2]) [] s[1] = "o" -> WithOrientation(b, s[2]) [] OTHER -> WithRefreshOrder(b, s[2], s[3])
\* abstract: last value per field; fields not set keep the bits of the start byte
FieldAfter(b0, ks) ==
  LET LastOf(kind) == LET idx == {i \in 1 .. Len(ks) : ks[i] # 0 /\ Setter(ks[i])[1] = kind} IN
                    IF idx = {} THEN 0 ELSE ks[CHOOSE i \in idx : \A j \in idx : j <= i]
      kc == LastOf("c")  ko == LastOf("o")  kr == LastOf("r")
      cbits == IF kc = 0 THEN (b0 % 16) - (b0 % 8) ELSE 8 * B2I(Setter(kc)[2])
      obits == IF ko = 0 THEN b0 - (b0 % 32) ELSE MadctlOf(FALSE, Setter(ko)[2], 0, 0)
      rbits == IF kr = 0 THEN ((b0 % 32) - (b0 % 16)) + ((b0 % 8) - (b0 % 4)) ELSE 16 * Setter(kr)[2] + 4 * Setter(kr)[3]
  IN obits + cbits + rbits + (b0 % 4)
MadctlOk(c) == ApplySetter(ApplySetter(ApplySetter(c[1], c[2]), c[3]), c[4]) = FieldAfter(c[1], <<c[2], c[3], c[4]>>)

\* C15: 0 = nothing, 1..4 rotate by 0/90/180/270, 5 flip_horizontal, 6 flip_vertical
OStep(o, k) == CASE k = 0 -> o [] k <= 4 -> ORotate(o, k - 1) [] k = 5 -> OFlipH(o) [] OTHER -> OFlipV(o)
PStep(p, k) == CASE k = 0 -> p [] k <= 4 -> RotCW(p, k - 1) [] k = 5 -> MirrorLR(p) [] OTHER -> MirrorTB(p)
GroupOk(c) ==
  LET o0 == [rot |-> c[1], mir |-> c[2]]
      ks == <<c[3], c[4], c[5], c[6]>>
      o2 == OStep(OStep(OStep(OStep(o0, ks[1]), ks[2]), ks[3]), ks[4])
      cf == [w |-> 3, h |-> 2, ox |-> 0, oy |-> 0]
      ls == LogicalSize(cf, o2)
      p == Pic(ls[1], ls[2], LAMBDA x, y : y * ls[1] + x + 1)
      tp == PStep(PStep(PStep(PStep(p, ks[4]), ks[3]), ks[2]), ks[1])
  IN <<tp.w, tp.h>> = LogicalSize(cf, o0) /\ Show(3, 2, o2, p) = Show(3, 2, o0, tp)

\* C15: the code's  if angle < 0 || angle > 270 { angle = angle.rem_euclid(360) }; match 0/90/180/270
CodeAngle(a) == LET b == IF a < 0 \/ a > 270 THEN a % 360 ELSE a IN
                CASE b = 0 -> 0 [] b = 90 -> 1 [] b = 180 -> 2 [] b = 270 -> 3 [] OTHER -> -1
AngleOk(c) == CodeAngle(c[1]) = TryFromDegree(c[1])

\* C04: the 16-bit-pointer helpers agree with the host helpers, inside TakeSkip as well
ClipOk(c) ==
  LET it == [pos |-> 0, len |-> c[1]] IN
  /\ ItNth16(it, c[2]) = ItNth(it, c[2])
  /\ LET a == TSNew(it, c[3], c[4])  r == TSNext(a) IN r.out = -1 \/ r.out >= 0

\* the record-free restatements that the TLAPS lemma (Lemmas.tla, proofs/) is about agree with the real definitions:
\* Driver.DWindow sends the offsets OffX / OffY, Controller.CellOf under Dcs.MadctlOf decodes like CellX / CellY,
\* Geometry.Place is PlaceX / PlaceY
LemmaDefsOk(c) ==
  LET fW == c[1]  fH == c[2]  pw == c[3]  ph == c[4]  pox == c[5]  poy == c[6]  rot == c[7]  mir == c[8] IN
  (pox + pw > fW \/ poy + ph > fH) \/
  LET cfg == [W |-> fW, H |-> fH, w |-> pw, h |-> ph, ox |-> pox, oy |-> poy, bgr |-> FALSE, refv |-> 0, refh |-> 0,
              colour |-> "565", iface |-> "rec", batch |-> TRUE]
      o == [rot |-> rot, mir |-> mir]
      d == DNew(cfg, o)
      ls == LogicalSize(cfg, o)
  IN \A x \in 0 .. ls[1] - 1, y \in 0 .. ls[2] - 1 :
       LET win == DWindow(d, x, y, x, y)
           col == win.ops[1][3][1] * 256 + win.ops[1][3][2]
           page == win.ops[2][3][1] * 256 + win.ops[2][3][2]
       IN /\ ~win.panic
          /\ col = x + L(fW, fH, pw, ph, pox, poy)!OffX(rot, mir) /\ page = y + L(fW, fH, pw, ph, pox, poy)!OffY(rot, mir)
          /\ CellOf(d.madctl, fW, fH, col, page) = <<L(fW, fH, pw, ph, pox, poy)!CellX(rot, mir, col, page), L(fW, fH, pw, ph, pox, poy)!CellY(rot, col, page)>>
          /\ Place(cfg, o, x, y) = <<L(fW, fH, pw, ph, pox, poy)!PlaceX(rot, mir, x, y), L(fW, fH, pw, ph, pox, poy)!PlaceY(rot, x, y)>>
          /\ ls = <<L(fW, fH, pw, ph, pox, poy)!LW(rot), L(fW, fH, pw, ph, pox, poy)!LH(rot)>>

Holds == CASE KIND = "init" -> InitOk(case) [] KIND = "lemmadefs" -> LemmaDefsOk(case) [] KIND = "scroll" -> ScrollOk(case) [] KIND = "madctl" -> MadctlOk(case)
           [] KIND = "group" -> GroupOk(case) [] KIND = "angle" -> AngleOk(case) [] OTHER -> ClipOk(case)
=============================================================================
