SPECIFICATION Spec
INVARIANT Holds
CHECK_DEADLOCK FALSE
CONSTANTS
  U16MAX = 5
  PROFILE = "debug"
  ROWCAP = 2
  BLOCKCAP = 4
  KIND = "init"
  NARROW = FALSE
