SPECIFICATION Spec
INVARIANT Holds
CHECK_DEADLOCK FALSE
CONSTANTS
  U16MAX = 65535
  PROFILE = "debug"
  ROWCAP = 50
  BLOCKCAP = 100
  KIND = "lemmadefs"
  NARROW = FALSE
