SPECIFICATION Spec
INVARIANT Holds
CHECK_DEADLOCK FALSE
CONSTANTS
  U16MAX = 7
  PROFILE = "debug"
  ROWCAP = 2
  BLOCKCAP = 4
  KIND = "madctl"
  NARROW = FALSE
