SPECIFICATION Spec
INVARIANT ExactBytes
INVARIANT TxBound
INVARIANT Bounded
INVARIANT ErrStops
PROPERTY Termination
CHECK_DEADLOCK FALSE
CONSTANTS
  NS = {1, 2, 3}
  MAXMULT = 4
  FAULTS = 1
  FIXED = TRUE
