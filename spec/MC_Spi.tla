------------------------------- MODULE MC_Spi -------------------------------
(***************************************************************************)
(* The HOW of interface/spi.rs as a step machine: one step per bus / pin   *)
(* operation, so that a failure can be injected at every one of them and   *)
(* so that termination of the two chunking loops is a liveness property    *)
(* TLC checks (C06: exact bytes, D/C discipline, termination; C20:         *)
(* transaction bound; C12: error stops the call).                          *)
(*                                                                         *)
(* FIXED = FALSE models the pinned tree before the repair of               *)
(* send_repeated_pixel (count = 0 never returns): TLC then reports the     *)
(* liveness counterexample kept in spec/history/.                          *)
(***************************************************************************)
EXTENDS Integers, Sequences, FiniteSets, TLC

CONSTANTS NS,        \* set of words-per-pixel values
          MAXMULT,   \* buffer lengths N .. MAXMULT*N + 1
          FAULTS,    \* number of failures that may be injected (0 or 1)
          FIXED

POISON == 238
Min(a, b) == IF a <= b THEN a ELSE b

VARIABLES call,   \* [kind, n, buflen, cmd, params, pixels (seq of seq), pixel, count]
          pc, buf, i, done, rest, count, fill, filled, dc, wire, ntx, budget, err
vars == <<call, pc, buf, i, done, rest, count, fill, filled, dc, wire, ntx, budget, err>>

PixelOf(n, k) == [j \in 1 .. n |-> (16 * k + j) % 256]       \* distinct, recognisable bytes
CallsFor(n, bl) ==
  {[kind |-> "cmd", n |-> n, buflen |-> bl, cmd |-> 42, params |-> [j \in 1 .. pl |-> 100 + j],
    pixels |-> <<>>, pixel |-> <<>>, count |-> 0] : pl \in {0, 1, 4, 6, 16, 17}}
  \cup {[kind |-> "px", n |-> n, buflen |-> bl, cmd |-> 0, params |-> <<>>,
         pixels |-> [k \in 1 .. c |-> PixelOf(n, k)], pixel |-> <<>>, count |-> c] : c \in 0 .. 3 * (bl \div n) + 2}
  \cup {[kind |-> "rep", n |-> n, buflen |-> bl, cmd |-> 0, params |-> <<>>,
         pixels |-> <<>>, pixel |-> PixelOf(n, 7), count |-> c] : c \in 0 .. 3 * (bl \div n) + 2}
Calls == UNION {UNION {CallsFor(n, bl) : bl \in n .. MAXMULT * n + 1} : n \in NS}

Init == /\ call \in Calls
        /\ pc = (CASE call.kind = "cmd" -> "cmd.dc0" [] call.kind = "px" -> "px.loop" [] OTHER -> "rep.init")
        /\ buf = [j \in 1 .. call.buflen |-> POISON]
        /\ i = 0 /\ done = FALSE /\ rest = call.pixels /\ count = call.count /\ fill = 0 /\ filled = 0
        /\ dc = 1 /\ wire = <<>> /\ ntx = 0 /\ budget = FAULTS /\ err = ""

\* a bus / pin operation either succeeds or, if the budget allows, fails and ends the call
Write(bytes, nextpc) ==
  \/ /\ wire' = Append(wire, <<dc, bytes>>) /\ ntx' = ntx + 1 /\ pc' = nextpc /\ UNCHANGED <<budget, err>>
  \/ /\ budget > 0 /\ budget' = budget - 1 /\ pc' = "err" /\ err' = "Spi" /\ ntx' = ntx + 1 /\ UNCHANGED wire
SetDc(v, nextpc) ==
  \/ /\ dc' = v /\ pc' = nextpc /\ UNCHANGED <<budget, err>>
  \/ /\ budget > 0 /\ budget' = budget - 1 /\ pc' = "err" /\ err' = "Dc" /\ UNCHANGED dc

Prefix(s, k) == SubSeq(s, 1, k)

\* ---- send_command
CmdDc0 == pc = "cmd.dc0" /\ SetDc(0, "cmd.w1") /\ UNCHANGED <<call, buf, i, done, rest, count, fill, filled, wire, ntx>>
CmdW1  == pc = "cmd.w1" /\ Write(<<call.cmd>>, "cmd.dc1") /\ UNCHANGED <<call, buf, i, done, rest, count, fill, filled, dc>>
CmdDc1 == pc = "cmd.dc1" /\ SetDc(1, "cmd.w2") /\ UNCHANGED <<call, buf, i, done, rest, count, fill, filled, wire, ntx>>
CmdW2  == pc = "cmd.w2" /\ Write(call.params, "ret") /\ UNCHANGED <<call, buf, i, done, rest, count, fill, filled, dc>>

\* ---- send_pixels:  while !done { i = 0; for chunk in buffer.chunks_exact_mut(N) { next or done } ; write(buffer[..i]) }
PxLoop == /\ pc = "px.loop"
          /\ IF done THEN pc' = "ret" /\ UNCHANGED <<buf, i, done, rest>>
             ELSE LET cap == call.buflen \div call.n
                      k == Min(cap, Len(rest))                     \* chunks filled in this round
                      flat == [j \in 1 .. k * call.n |-> rest[((j - 1) \div call.n) + 1][((j - 1) % call.n) + 1]]
                  IN /\ buf' = [j \in 1 .. call.buflen |-> IF j <= k * call.n THEN flat[j] ELSE buf[j]]
                     /\ i' = k * call.n
                     /\ rest' = SubSeq(rest, k + 1, Len(rest))
                     /\ done' = (Len(rest) < cap)                   \* the iterator returned None inside the for loop
                     /\ pc' = "px.write"
          /\ UNCHANGED <<call, count, fill, filled, dc, wire, ntx, budget, err>>
PxWrite == pc = "px.write" /\ Write(Prefix(buf, i), "px.loop") /\ UNCHANGED <<call, buf, i, done, rest, count, fill, filled, dc>>

\* ---- send_repeated_pixel
RepInit == /\ pc = "rep.init"
           /\ IF FIXED /\ count = 0 THEN pc' = "ret" /\ UNCHANGED <<buf, fill, filled>>
              ELSE LET f == Min(count, call.buflen \div call.n) IN
                   /\ fill' = f /\ filled' = f * call.n
                   /\ buf' = [j \in 1 .. call.buflen |-> IF j <= f * call.n THEN call.pixel[((j - 1) % call.n) + 1] ELSE buf[j]]
                   /\ pc' = "rep.loop"
           /\ UNCHANGED <<call, i, done, rest, count, dc, wire, ntx, budget, err>>
RepLoop == /\ pc = "rep.loop"
           /\ IF count >= fill
              THEN /\ Write(Prefix(buf, filled), "rep.loop")
                   /\ count' = IF pc' = "err" THEN count ELSE count - fill
              ELSE pc' = "rep.rem" /\ UNCHANGED <<count, wire, ntx, budget, err>>
           /\ UNCHANGED <<call, buf, i, done, rest, fill, filled, dc>>
RepRem == /\ pc = "rep.rem"
          /\ IF count # 0 THEN Write(Prefix(buf, count * call.n), "ret")
             ELSE pc' = "ret" /\ UNCHANGED <<wire, ntx, budget, err>>
          /\ UNCHANGED <<call, buf, i, done, rest, count, fill, filled, dc>>

Next == CmdDc0 \/ CmdW1 \/ CmdDc1 \/ CmdW2 \/ PxLoop \/ PxWrite \/ RepInit \/ RepLoop \/ RepRem
Spec == Init /\ [][Next]_vars /\ WF_vars(Next)

---------------------------------------------------------------------------
RECURSIVE Cat(_)
Cat(ws) == IF ws = <<>> THEN <<>> ELSE Head(ws)[2] \o Cat(Tail(ws))
DataBytes == Cat(SelectSeq(wire, LAMBDA x : x[1] = 1))
CmdBytes == Cat(SelectSeq(wire, LAMBDA x : x[1] = 0))
Flat(px) == IF px = <<>> THEN <<>> ELSE [j \in 1 .. Len(px) * Len(px[1]) |-> px[((j - 1) \div Len(px[1])) + 1][((j - 1) % Len(px[1])) + 1]]
Expected == CASE call.kind = "cmd" -> call.params
              [] call.kind = "px" -> Flat(call.pixels)
              [] OTHER -> [j \in 1 .. call.count * call.n |-> call.pixel[((j - 1) % call.n) + 1]]
Usable == (call.buflen \div call.n) * call.n

\* C06: at return the bytes delivered under D/C high / low are exactly the ones to send; no stale staging content
ExactBytes == pc = "ret" => /\ DataBytes = Expected
                            /\ CmdBytes = (IF call.kind = "cmd" THEN <<call.cmd>> ELSE <<>>)
\* C20: a burst of b bytes needs at most floor(b / usable) + 1 transactions
TxBound == (pc = "ret" /\ call.kind # "cmd") => ntx <= (Len(Expected) \div Usable) + 1
\* C06 (safety form of termination): the number of transactions is bounded at every moment
Bounded == ntx <= Len(Expected) + 4
\* C12: after a failure nothing else happens (err is absorbing) and the source is named
ErrStops == pc = "err" => err \in {"Spi", "Dc"}
\* C06: the call returns (or reports the injected failure)
Termination == <>(pc \in {"ret", "err"})
=============================================================================
