\* the pinned tree before the repair of send_repeated_pixel: expected to FAIL (kept as the record of defect 3;
\* the state space is infinite because the loop never ends, so the defect shows as a violation of Bounded)
SPECIFICATION Spec
INVARIANT ExactBytes
INVARIANT Bounded
CHECK_DEADLOCK FALSE
CONSTANTS
  NS = {2}
  MAXMULT = 2
  FAULTS = 0
  FIXED = FALSE
