----------------------------- MODULE TestImage -----------------------------
(***************************************************************************)
(* C19.  (a) The predicates the property states about the test picture,    *)
(* on pictures given as functions from <<x, y>> to a colour class          *)
(* (0 black, 1 white, 2 red, 3 green, 4 blue, 5 other, 9 untouched).       *)
(* (b) A model of the drawing program of test_image.rs over an ideal       *)
(* clipping DrawTarget (embedded-graphics rectangle arithmetic included),  *)
(* giving the exact expected picture -- used for DRIFT only.               *)
(***************************************************************************)
EXTENDS Integers, Sequences, FiniteSets, Geometry

RowAt(row, x) ==   \* class at column x (0-based) of a run-length encoded row
  LET F[i \in 0 .. Len(row)] == IF i = 0 THEN 0 ELSE F[i - 1] + row[i][2]
      k == CHOOSE i \in 1 .. Len(row) : F[i - 1] <= x /\ x < F[i]
  IN row[k][1]
Expand(rows, w, h) == [p \in (0 .. w - 1) \X (0 .. h - 1) |-> RowAt(rows[p[2] + 1], p[1])]
AllPainted(pic) == \A p \in DOMAIN pic : pic[p] # 9
WhiteFrameExact(pic, w, h) ==
  /\ \A p \in DOMAIN pic : (p[1] \in {0, w - 1} \/ p[2] \in {0, h - 1}) => pic[p] = 1
  /\ \A p \in DOMAIN pic : (p[1] \in 1 .. w - 2 /\ p[2] \in 1 .. h - 2 /\ (p[1] \in {1, w - 2} \/ p[2] \in {1, h - 2})) => pic[p] # 1
RGBOrdered(pic) ==
  LET xs(c) == {p[1] : p \in {q \in DOMAIN pic : pic[q] = c}} IN
  /\ xs(2) # {} /\ xs(3) # {} /\ xs(4) # {}
  /\ \A a \in xs(2), b \in xs(3) : a < b
  /\ \A a \in xs(3), b \in xs(4) : a < b
Asymmetric(pic, w, h) ==
  /\ \E p \in DOMAIN pic : pic[p] # pic[<<w - 1 - p[1], p[2]>>]
  /\ \E p \in DOMAIN pic : pic[p] # pic[<<p[1], h - 1 - p[2]>>]
  /\ \E p \in DOMAIN pic : pic[p] # pic[<<w - 1 - p[1], h - 1 - p[2]>>]
  /\ w # h \/ ( /\ \E p \in DOMAIN pic : pic[p] # pic[<<p[2], p[1]>>]
                /\ \E p \in DOMAIN pic : pic[p] # pic[<<h - 1 - p[2], w - 1 - p[1]>>]
                /\ \E p \in DOMAIN pic : pic[p] # pic[<<p[2], w - 1 - p[1]>>]
                /\ \E p \in DOMAIN pic : pic[p] # pic[<<h - 1 - p[2], p[1]>>] )

GoodPicture(pic, w, h) ==
  IF ~AllPainted(pic) THEN "a pixel was left unpainted"
  ELSE IF ~WhiteFrameExact(pic, w, h) THEN "no exact one-pixel white frame on the outermost rows and columns"
  ELSE IF ~RGBOrdered(pic) THEN "no pure red region left of a pure green region left of a pure blue region"
  ELSE IF ~Asymmetric(pic, w, h) THEN "the picture equals one of its rotated / mirrored versions" ELSE ""

\* colour class of a raw colour value of the given colour type
ClassOf(colour, v) ==
  IF colour = "565" THEN (CASE v = 0 -> 0 [] v = 65535 -> 1 [] v = 63488 -> 2 [] v = 2016 -> 3 [] v = 31 -> 4 [] OTHER -> 5)
  ELSE (CASE v = 0 -> 0 [] v = 262143 -> 1 [] v = 258048 -> 2 [] v = 4032 -> 3 [] v = 63 -> 4 [] OTHER -> 5)

---------------------------------------------------------------------------
\* embedded-graphics rectangle arithmetic (rectangles are <<x, y, w, h>>)
SatSub(a, b) == IF a >= b THEN a - b ELSE 0
CenterOff(w, h) == <<SatSub(w, 1) \div 2, SatSub(h, 1) \div 2>>
RCenter(r) == <<r[1] + CenterOff(r[3], r[4])[1], r[2] + CenterOff(r[3], r[4])[2]>>
WithCenter(c, w, h) == <<c[1] - CenterOff(w, h)[1], c[2] - CenterOff(w, h)[2], w, h>>
ShrinkBy(r, k) == WithCenter(RCenter(r), SatSub(r[3], 2 * k), SatSub(r[4], 2 * k))        \* offset(-k)
ResizedWidthLeft(r, w2) == <<r[1], r[2], w2, r[4]>>
ResizedWidthRight(r, w2) == <<r[1] + (Max2(r[3], 1) - Max2(w2, 1)), r[2], w2, r[4]>>

GlyphR == <<0, 0, 0, 0, 0, 0, 0, 0, 0, 0, 0, 0, 0, 0, 0, 0, 0, 0, 0, 0, 1, 1, 1, 1, 0, 0, 0, 0, 0, 1, 0, 0, 0, 1, 0, 0, 0, 0, 1, 0, 0, 0, 1, 0, 0, 0, 0, 1, 1, 1, 1, 0, 0, 0, 0, 0, 1, 0, 1, 0, 0, 0, 0, 0, 0, 1, 0, 0, 1, 0, 0, 0, 0, 0, 1, 0, 0, 0, 1, 0, 0, 0, 0, 0, 0, 0, 0, 0, 0, 0, 0, 0, 0, 0, 0, 0, 0, 0, 0>>
GlyphG == <<0, 0, 0, 0, 0, 0, 0, 0, 0, 0, 0, 0, 0, 0, 0, 0, 0, 0, 0, 0, 0, 1, 1, 1, 1, 0, 0, 0, 0, 1, 0, 0, 0, 0, 0, 0, 0, 0, 1, 0, 0, 0, 0, 0, 0, 0, 0, 1, 0, 1, 1, 1, 0, 0, 0, 0, 1, 0, 0, 0, 1, 0, 0, 0, 0, 1, 0, 0, 0, 1, 0, 0, 0, 0, 0, 1, 1, 1, 1, 0, 0, 0, 0, 0, 0, 0, 0, 0, 0, 0, 0, 0, 0, 0, 0, 0, 0, 0, 0>>
GlyphB == <<0, 0, 0, 0, 0, 0, 0, 0, 0, 0, 0, 0, 0, 0, 0, 0, 0, 0, 0, 0, 1, 1, 1, 1, 0, 0, 0, 0, 0, 1, 0, 0, 0, 1, 0, 0, 0, 0, 1, 0, 0, 0, 1, 0, 0, 0, 0, 1, 1, 1, 1, 0, 0, 0, 0, 0, 1, 0, 0, 0, 1, 0, 0, 0, 0, 1, 0, 0, 0, 1, 0, 0, 0, 0, 1, 1, 1, 1, 0, 0, 0, 0, 0, 0, 0, 0, 0, 0, 0, 0, 0, 0, 0, 0, 0, 0, 0, 0, 0>>
GlyphAt(g, r, x, y) == IF g[(y - r[2]) * 9 + (x - r[1]) + 1] = 0 THEN 0 ELSE 1

\* the picture TestImage::draw leaves on a W x H clipping target
TestImagePic(W, H) ==
  LET bbox == <<0, 0, W, H>>
      inner == ShrinkBy(bbox, 1)
      area == ShrinkBy(bbox, 5)
      red == ResizedWidthLeft(area, area[3] \div 3)
      blue == ResizedWidthRight(area, area[3] \div 3)
      cg == WithCenter(RCenter(area), 9, 11)
      cr == WithCenter(RCenter(red), 9, 11)
      cb == WithCenter(RCenter(blue), 9, 11)
      InMarker(x, y) == LET dy == y - area[2]  dx == x - area[1] IN dy >= 0 /\ dy < 20 /\ dx >= 0 /\ dx < 20 - dy
      At(x, y) ==
        IF InMarker(x, y) THEN 1
        ELSE IF RContains(cb, x, y) THEN GlyphAt(GlyphB, cb, x, y)
        ELSE IF RContains(blue, x, y) THEN 4
        ELSE IF RContains(cr, x, y) THEN GlyphAt(GlyphR, cr, x, y)
        ELSE IF RContains(red, x, y) THEN 2
        ELSE IF RContains(cg, x, y) THEN GlyphAt(GlyphG, cg, x, y)
        ELSE IF RContains(area, x, y) THEN 3
        ELSE IF RContains(inner, x, y) THEN 0 ELSE 1
  IN [p \in (0 .. W - 1) \X (0 .. H - 1) |-> At(p[1], p[2])]
=============================================================================
