------------------------------- MODULE Trace -------------------------------
(***************************************************************************)
(* Trace validation: a deterministic monitor over a recorded execution of  *)
(* the real crate.  Every record is one public driver call with its        *)
(* arguments, its result, the getters afterwards and the complete ordered  *)
(* list of low-level operations it performed.  The monitor replays the     *)
(* operations through the environment (Wire, Controller), applies the      *)
(* abstract layer to the logged call, and evaluates the property           *)
(* predicates after every call.  It collects violations instead of         *)
(* blocking, so that one run reports all of them.                          *)
(***************************************************************************)
EXTENDS Judge, Driver, Models, TestImage, Json, IOUtils

Rec == ndJsonDeserialize(IOEnv.TRACE)

VARIABLE s
vars == <<s>>

NoScn == [id |-> -1, kind |-> "none", cfg |-> [iface |-> "rec"], faults |-> <<>>,
          tag |-> "", ncalls |-> 0]
D0 == [alive |-> FALSE, orient |-> [rot |-> 0, mir |-> FALSE], sleeping |-> FALSE, reoriented |-> FALSE,
       faulted |-> FALSE, skip |-> FALSE, ncall |-> 0, slpUnknown |-> FALSE]
Stat0 == [calls |-> 0, scn |-> 0, painted |-> 0, faults |-> 0, oob |-> 0, wireops |-> 0, done |-> 0]

Init == s = [l |-> 1, sc |-> NoScn, w |-> WireNew(1, 1, "rec", FALSE, FALSE), d |-> D0, img |-> <<>>,
             viol |-> <<>>, stat |-> Stat0, rowcap |-> 0, dd |-> [none |-> TRUE], drift |-> <<>>, ndrift |-> 0, ncmp |-> 0]

---------------------------------------------------------------------------
---------------------------------------------------------------------------
\* clear() of a panel with 2^31 pixels or more (65535 x 65535) through a real Display on a real transport: the count
\* handed to the transport does not fit TLC's integers and the picture cannot be painted; what can be judged is the
\* window set-up in front, that the words on the bus are the colour repeated, and that the call is still sending when
\* the operation budget of the recording ends (JudgeHuge, Judge.tla)
HugeFill(sc, r) == sc.tag = "huge-fill" /\ r.name = "clear"
JudgeHugeFill(sc, d, w0, w1, r) ==
  LET cfg == sc.cfg  cm == w1.cmds
      P == {"C01"} \cup (IF cfg.iface = "spi" THEN {"C06"} ELSE {"C07"})
      pat == PixWords(cfg, r.args.c)
      got == w1.ctl.burst
      ls == LogicalSize(cfg, d.orient)
  IN Chk(r.res = "budget", r, P, "clear of 2^31 pixels or more: the call ended before all of them were sent: " \o r.res \o " " \o r.pmsg \o " " \o r.ploc)
     \o Chk(Len(cm) = 3 /\ cm[1].op = 42 /\ cm[1].p = Caset(0, ls[1] - 1) /\ cm[2].op = 43 /\ cm[2].p = Caset(0, ls[2] - 1)
               /\ cm[3].op = 44, r, P \cup {"C08"}, "clear of 2^31 pixels or more: not one set-up of the full window followed by memory-write-start")
     \o Chk(Len(got) > 0 /\ \A i \in 1 .. Len(got) : got[i] = pat[((i - 1) % Len(pat)) + 1], r, P,
            "clear of 2^31 pixels or more: the words on the bus are not the colour repeated")

Step(r) ==
  IF r.k = "scn" THEN
     [s EXCEPT !.l = @ + 1, !.sc = r,
               !.w = WireNew(Max2(r.cfg.W, 1), Max2(r.cfg.H, 1), r.cfg.iface, r.cfg.model = "rm67162", r.cfg.rst),
               !.d = D0, !.img = <<>>, !.stat.scn = @ + 1]
  ELSE IF r.k # "call" THEN [s EXCEPT !.l = @ + 1]
  ELSE
  LET sc == s.sc  d == s.d  w0 == s.w
      w1 == RunOps(w0, r.ops)
      st1 == [s.stat EXCEPT !.calls = @ + 1, !.wireops = @ + Len(r.ops),
                            !.done = IF r.i = sc.ncalls THEN @ + 1 ELSE @]
      fault == FaultHere(sc, r)
  IN
  IF sc.kind = "xport" THEN
     LET v == IF fault THEN (IF sc.cfg.iface \in {"bus8", "bus16"} THEN JudgeBus(sc, w0, w1, r) ELSE JudgeFault(sc, d, w0, w1, r))
              ELSE IF r.name = "bus.set_value" THEN JudgeBus(sc, w0, w1, r) ELSE JudgeXport(sc, w0, w1, r)
     IN [s EXCEPT !.l = @ + 1, !.w = w1, !.viol = @ \o v,
                  !.stat = [st1 EXCEPT !.faults = IF fault THEN @ + 1 ELSE @]]
  ELSE IF sc.kind = "modelinit" THEN
     [s EXCEPT !.l = @ + 1, !.w = w1, !.stat = st1,
               !.viol = @ \o (IF fault THEN JudgeFault(sc, d, w0, w1, r) ELSE JudgeInit(sc, w0, w1, r))]
  ELSE IF d.skip THEN [s EXCEPT !.l = @ + 1, !.w = w1, !.stat = st1]
  ELSE IF fault THEN
     LET fb == FbView(w1.ctl)
         v == JudgeFault(sc, d, w0, w1, r)
              \o Chk(\A c \in DOMAIN fb : InWindow(sc.cfg, c), r, {"C12"}, "the failed call modified a cell outside the panel window")
         \* a sleep/wake that failed half-way returned without its 120 ms delay: the spacing to the next sleep-in/out
         \* command is not the driver's to guarantee any more (C13 is stated for fault-free histories)
         w2 == IF r.name \in {"sleep", "wake"} THEN [w1 EXCEPT !.ctl.tslpU = -1] ELSE w1
     IN [s EXCEPT !.l = @ + 1, !.w = w2, !.img = fb, !.viol = @ \o v,
                  !.d = [d EXCEPT !.faulted = TRUE, !.slpUnknown = @ \/ r.name \in {"sleep", "wake"}],
                  !.stat = [st1 EXCEPT !.faults = @ + 1]]
  ELSE IF r.name = "init" THEN
     [s EXCEPT !.l = @ + 1, !.w = w1, !.img = FbView(w1.ctl), !.viol = @ \o JudgeInit(sc, w0, w1, r), !.stat = st1,
               !.d = [D0 EXCEPT !.alive = r.res = "ok", !.orient = Orient0(sc), !.faulted = d.faulted]]
  ELSE IF r.name = "test_image" THEN
     \* C19 through a real Display: the decoded framebuffer, mapped back to logical positions, must satisfy the
     \* predicates of the property; nothing outside the panel window may change; the exact picture is DRIFT only
     LET fb == FbView(w1.ctl)
         ls == LogicalSize(sc.cfg, d.orient)
         pic == [p \in (0 .. ls[1] - 1) \X (0 .. ls[2] - 1) |->
                   LET c == Place(sc.cfg, d.orient, p[1], p[2]) IN
                   IF c \in DOMAIN fb THEN ClassOf(sc.cfg.colour, fb[c]) ELSE 9]
         good == IF ls[1] >= 32 /\ ls[2] >= 32 THEN GoodPicture(pic, ls[1], ls[2]) ELSE ""
         fr == FramingErrors(w0.ctl, w1.cmds, WordsPerPixel(w1.ctl), TRUE)
     IN [s EXCEPT !.l = @ + 1, !.w = w1, !.img = fb, !.stat = st1,
               !.ncmp = @ + 1, !.ndrift = IF r.res = "ok" /\ pic # TestImagePic(ls[1], ls[2]) THEN @ + 1 ELSE @,
               !.viol = @ \o Chk(r.res = "ok", r, {"C19", "C02"}, "test image: " \o r.res \o " " \o r.pmsg \o " " \o r.ploc)
                          \o Chk(r.res # "ok" \/ good = "", r, {"C19"}, "test image through the display: " \o good)
                          \o Chk(r.res # "ok" \/ \A c \in DOMAIN fb : InWindow(sc.cfg, c), r, {"C19", "C02"},
                                 "the test image modified a cell outside the panel window")
                          \o Chk(r.res # "ok" \/ fr = "", r, {"C08"}, "framing: " \o fr)]
  ELSE IF HugeFill(sc, r) THEN
     \* (the rest of such a scenario is not judged: the recording of this call was cut at the operation budget)
     [s EXCEPT !.l = @ + 1, !.w = w1, !.stat = st1, !.d = [d EXCEPT !.skip = TRUE],
               !.viol = @ \o JudgeHugeFill(sc, d, w0, w1, r)]
  ELSE IF IsDrawing(r.name) THEN
     LET j == JudgeDrawing(sc, d, s.img, w0, w1, r, s.rowcap)
         img1 == IF r.res = "ok" THEN j.img ELSE FbView(w1.ctl)
         inb == ArgsInBounds(sc, d, r)
     IN [s EXCEPT !.l = @ + 1, !.w = w1, !.img = img1,
                  !.viol = @ \o j.v \o JudgeAlways(sc, d, w0, w1, r),
                  !.d = [d EXCEPT !.skip = j.skip],
                  !.stat = [st1 EXCEPT !.painted = IF img1 # s.img THEN @ + 1 ELSE @, !.oob = IF inb THEN @ ELSE @ + 1],
                  !.rowcap = IF sc.tag = "measure_rowcap" /\ r.name = "draw_iter" /\ Len(w1.cmds) >= 3 /\ WordsPerPixel(w1.ctl) > 0
                             THEN w1.cmds[3].n \div WordsPerPixel(w1.ctl) ELSE @]
  ELSE
     LET d1 == IF r.res # "ok" THEN d
               ELSE CASE r.name = "set_orientation" -> [d EXCEPT !.orient = [rot |-> r.args.rot, mir |-> r.args.mir], !.reoriented = TRUE]
                      [] r.name = "sleep" -> [d EXCEPT !.sleeping = TRUE, !.slpUnknown = FALSE]
                      [] r.name = "wake" -> [d EXCEPT !.sleeping = FALSE, !.slpUnknown = FALSE]
                      [] OTHER -> d
     IN [s EXCEPT !.l = @ + 1, !.w = w1, !.d = d1, !.stat = st1,
                  !.viol = @ \o JudgeOther(sc, d, w0, w1, r) \o JudgeAlways(sc, d1, w0, w1, r)]

\* DRIFT (never an alarm): on the recording interfaces the interface-level traffic of the real code is compared
\* with what the driver layer of the specification (Driver / Batch / Clip) predicts for the same call.
IsRec(sc) == sc.kind = "display" /\ sc.cfg.iface \in {"rec", "rec_p8", "rec_p16"}
NoRst(ops) == SelectSeq(ops, LAMBDA op : op[1] # "rst")
WithDrift(s1, r) ==
  IF r.k # "call" \/ ~IsRec(s.sc) THEN s1
  ELSE IF r.name = "init" THEN
       LET cfg == s.sc.cfg
           m == MadctlFromOptions(cfg, Orient0(s.sc))
           prog == IF cfg.model \in ModelNames THEN Concrete(cfg.model, m, cfg.inv)
                   ELSE <<<<"dly", 5000, 0>>, <<"cmd", 17, <<>>, 1>>, <<"dly", 120000, 0>>, <<"cmd", 54, <<m>>, 1>>,
                          <<"cmd", IF cfg.inv THEN 33 ELSE 32, <<>>, 1>>, <<"cmd", 58, <<ColmodFor(cfg.colour)>>, 1>>,
                          <<"cmd", 41, <<>>, 1>>>>
           e == (IF cfg.rst THEN <<<<"dly", 10, 0>>>> ELSE <<<<"cmd", 1, <<>>, 1>>>>) \o prog
           cmp == r.res = "ok" /\ ~FaultHere(s.sc, r)
           same == NoRst(r.ops) = e
       IN [s1 EXCEPT !.dd = IF r.res = "ok" THEN DNew(cfg, Orient0(s.sc)) ELSE [none |-> TRUE],
                     !.ncmp = IF cmp THEN @ + 1 ELSE @,
                     !.ndrift = IF cmp /\ ~same THEN @ + 1 ELSE @,
                     !.drift = IF ~cmp \/ same \/ Len(@) >= 20 THEN @ ELSE Append(@, [id |-> r.id, i |-> r.i, name |-> r.name])]
  ELSE IF "none" \in DOMAIN s.dd \/ FaultHere(s.sc, r) \/ r.name \in {"test_image", "raw"} \/ s.d.skip \/ s1.d.skip THEN s1
  ELSE LET e == DCall(s.dd, r.name, r.args)
           same == IF e.panic THEN r.res = "panic" ELSE r.res = "ok" /\ NoRst(r.ops) = e.ops
       IN [s1 EXCEPT !.dd = IF r.res = "ok" THEN e.d ELSE s.dd, !.ncmp = @ + 1,
                     !.ndrift = IF same THEN @ ELSE @ + 1,
                     !.drift = IF same \/ Len(@) >= 20 THEN @ ELSE Append(@, [id |-> r.id, i |-> r.i, name |-> r.name])]

\* "reinit" (Display::release, then Builder::new .. init over the same interface, model and reset-pin objects) is an
\* initialisation like any other: same obligations, same effect on the monitor's state
Norm(r) == IF r.k = "call" /\ r.name = "reinit" THEN [r EXCEPT !.name = "init"] ELSE r
Next == s.l <= Len(Rec) /\ s' = WithDrift(Step(Norm(Rec[s.l])), Norm(Rec[s.l]))
Spec == Init /\ [][Next]_vars

\* verdicts leave TLC through this (always true) invariant, evaluated in the final state
Final == (s.l = Len(Rec) + 1) =>
           /\ PrintT(<<"VIOL", ToJson(s.viol)>>)
           /\ PrintT(<<"STAT", ToJson(s.stat @@ [rowcap |-> s.rowcap, records |-> Len(Rec), driftcmp |-> s.ncmp, drift |-> s.ndrift])>>)
           /\ PrintT(<<"DRIFT", ToJson(s.drift)>>)
\* the whole trace was consumed
Consumed == TLCGet("stats").diameter - 1 = Len(Rec)
=============================================================================
