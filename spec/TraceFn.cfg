SPECIFICATION Spec
INVARIANT Final
POSTCONDITION Consumed
CHECK_DEADLOCK FALSE
