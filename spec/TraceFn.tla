------------------------------ MODULE TraceFn ------------------------------
(***************************************************************************)
(* Validation of tables recorded from the pure functions of the real crate *)
(* (address-mode byte, orientation algebra, angle parsing, DCS command     *)
(* serialisation, colour encodings, the test image).  Every row is judged  *)
(* against the definitions of Dcs.tla / Geometry.tla; rows are consumed in *)
(* chunks, one chunk per step.                                             *)
(***************************************************************************)
EXTENDS Integers, Sequences, FiniteSets, TLC, Json, IOUtils, SequencesExt, Geometry, Dcs, TestImage

Rec == ndJsonDeserialize(IOEnv.TRACE)
CHUNK == 200

VARIABLE s
vars == <<s>>
Init == s = [l |-> 1, bad |-> <<>>, rows |-> 0, drift |-> 0]

O(v) == [rot |-> v[1], mir |-> v[2]]
Tail16Is(buf, n, fill) == \A i \in (n + 1) .. 16 : buf[i] = fill
Prefix(buf, p) == \A i \in 1 .. Len(p) : buf[i] = p[i]

---------------------------------------------------------------------------
\* C14
MadStart(v) == [bgr |-> v[1], o |-> [rot |-> v[2], mir |-> v[3]], refv |-> v[4], refh |-> v[5]]
MadStep(m, st) == CASE st[1] = "color" -> [m EXCEPT !.bgr = st[2]]
                    [] st[1] = "orient" -> [m EXCEPT !.o = [rot |-> st[2], mir |-> st[3]]]
                    [] OTHER -> [m EXCEPT !.refv = st[2], !.refh = st[3]]
MadByte(m) == MadctlOf(m.bgr, m.o, m.refv, m.refh)
MadRowBad(m, out, fill) ==
  IF out[1] # 54 THEN "set-address-mode opcode is not 36h"
  ELSE IF out[2] # 1 THEN "set-address-mode does not report exactly one parameter byte"
  ELSE IF out[3][1] # MadByte(m) THEN "address-mode byte is not the MIPI encoding of its inputs"
  ELSE IF ~Tail16Is(out[3], 1, fill) THEN "bytes beyond the reported length were touched"
  ELSE IF out[3][1] % 4 # 0 THEN "bits 1-0 not zero" ELSE ""

---------------------------------------------------------------------------
\* C15: geometric meaning of the orientation operations, on an injective picture of a 3 x 2 panel
PW == 3
PH == 2
Numbered(lw, lh) == Pic(lw, lh, LAMBDA x, y : y * lw + x + 1)
TStep(p, st) == CASE st[1] = "rot" -> RotCW(p, st[2]) [] st[1] = "fh" -> MirrorLR(p) [] OTHER -> MirrorTB(p)
\* T_{s1}( ... T_{sn}(P))
TWord(p, steps) == LET n == Len(steps)
                       F[i \in 0 .. n] == IF i = 0 THEN p ELSE TStep(F[i - 1], steps[n - i + 1])
                   IN F[n]
OrientWordBad(o0, steps, o2) ==
  IF ~(o2[1] \in 0..3 /\ o2[2] \in BOOLEAN) THEN "not an orientation" ELSE
  LET cfg == [w |-> PW, h |-> PH, ox |-> 0, oy |-> 0]
      ls2 == LogicalSize(cfg, O(o2))
      p == Numbered(ls2[1], ls2[2])
      tp == TWord(p, steps)
      ls0 == LogicalSize(cfg, O(o0))
  IN IF <<tp.w, tp.h>> # ls0 THEN "composed orientation has the wrong logical size"
     ELSE IF Show(PW, PH, O(o2), p) # Show(PW, PH, O(o0), tp)
          THEN "the composed orientation does not show the pre-transformed picture" ELSE ""

---------------------------------------------------------------------------
\* C18: what each command type must serialise to
BppCode(b) == CASE b = 3 -> 1 [] b = 8 -> 2 [] b = 12 -> 3 [] b = 16 -> 5 [] b = 18 -> 6 [] OTHER -> 7
ExpectedCmd(in) ==
  LET n == in[1] IN
  CASE n = "SoftReset" -> [op |-> 1, p |-> <<>>]
    [] n = "EnterSleepMode" -> [op |-> 16, p |-> <<>>]
    [] n = "ExitSleepMode" -> [op |-> 17, p |-> <<>>]
    [] n = "EnterPartialMode" -> [op |-> 18, p |-> <<>>]
    [] n = "EnterNormalMode" -> [op |-> 19, p |-> <<>>]
    [] n = "SetDisplayOff" -> [op |-> 40, p |-> <<>>]
    [] n = "SetDisplayOn" -> [op |-> 41, p |-> <<>>]
    [] n = "ExitIdleMode" -> [op |-> 56, p |-> <<>>]
    [] n = "EnterIdleMode" -> [op |-> 57, p |-> <<>>]
    [] n = "WriteMemoryStart" -> [op |-> 44, p |-> <<>>]
    [] n = "SetColumnAddress" -> [op |-> 42, p |-> Caset(in[2], in[3])]
    [] n = "SetPageAddress" -> [op |-> 43, p |-> Caset(in[2], in[3])]
    [] n = "SetScrollArea" -> [op |-> 51, p |-> Vscrdef(in[2], in[3], in[4])]
    [] n = "SetScrollStart" -> [op |-> 55, p |-> Be16(in[2])]
    [] n = "SetTearingEffect" -> IF in[2] = "off" THEN [op |-> 52, p |-> <<>>]
                                 ELSE [op |-> 53, p |-> <<IF in[2] = "hv" THEN 1 ELSE 0>>]
    [] n = "SetInvertMode" -> [op |-> IF in[2] THEN 33 ELSE 32, p |-> <<>>]
    [] n = "SetPixelFormat" -> [op |-> 58, p |-> <<BppCode(in[2]) * 16 + BppCode(in[3])>>]
    [] n = "SetPixelFormatAll" -> [op |-> 58, p |-> <<BppCode(in[2]) * 17>>]
    [] n = "SetAddressMode" -> [op |-> 54, p |-> <<MadByte(MadStart(SubSeq(in, 2, 6)))>>]
    [] OTHER -> [op |-> -1, p |-> <<>>]
DcsOneBad(e, row, fill) ==
  LET ser == row[1] IN
  IF e.op < 0 THEN "unknown command name in the table"
  ELSE IF ser[1] # e.op THEN "wrong opcode"
  ELSE IF ser[2] # Len(e.p) THEN "wrong number of parameter bytes reported"
  ELSE IF ~Prefix(ser[3], e.p) THEN "wrong parameter bytes (16-bit quantities must be most-significant byte first)"
  ELSE IF ~Tail16Is(ser[3], Len(e.p), fill) THEN "a byte beyond the reported length was touched"
  ELSE IF ~row[2] THEN "write_command failed on an infallible interface"
  ELSE IF row[3] # <<<<"cmd", e.op, e.p, 1>>>> THEN "write_command did not put exactly opcode + parameters on the bus"
  ELSE ""

---------------------------------------------------------------------------
\* C05
Col565(in, i) == (in[1] + i) % 65536
Col666(in, i) == (in[1] + i) % 262144
Words565x8(in) == [j \in 1 .. 2 * in[2] |-> Enc565x8(Col565(in, (j - 1) \div 2))[((j - 1) % 2) + 1]]
Words666x8(in) == [j \in 1 .. 3 * in[2] |-> Enc666x8(Col666(in, (j - 1) \div 3))[((j - 1) % 3) + 1]]
Words565x16(in) == [j \in 1 .. in[2] |-> Col565(in, j - 1)]
StreamBad(out, ws, n) ==
  IF Len(out) # 1 \/ out[1][1] # "px" THEN "send_pixels did not reach the interface as one pixel stream"
  ELSE IF out[1][3] # n THEN "wrong number of words per pixel"
  ELSE IF out[1][2] # ws THEN "pixel words differ from the encoding the announced format requires" ELSE ""
RepBad(out, in, enc(_), n) ==
  IF Len(out) # in[2] THEN "send_repeated_pixel did not reach the interface once per call"
  ELSE IF \E i \in 1 .. Len(out) : out[i][1] # "rep" \/ out[i][2] # enc(i - 1) \/ out[i][3] # 0 \/ out[i][4] # 3
       THEN "a solid fill encodes the colour differently from a pixel stream (or changes the count)" ELSE ""
\* decoding what was encoded returns the colour (whole domain, evaluated on the rows' ranges)
RoundTrip565(in) == \A i \in 0 .. in[2] - 1 : LET c == Col565(in, i)  e == Enc565x8(c) IN Dec16x8(e[1], e[2]) = c
RoundTrip666(in) == \A i \in 0 .. in[2] - 1 : LET c == Col666(in, i)  e == Enc666x8(c) IN
                      Dec18x8(e[1], e[2], e[3]) = c /\ e[1] % 4 = 0 /\ e[2] % 4 = 0 /\ e[3] % 4 = 0

---------------------------------------------------------------------------
\* very large targets are judged on the run-length encoded rows directly (no expansion): everything painted, the
\* outermost rows entirely white, every other row white exactly in its first and last column, and somewhere a row with
\* a red run left of a green run left of a blue run
RowLen(row) == LET F[i \in 0 .. Len(row)] == IF i = 0 THEN 0 ELSE F[i - 1] + row[i][2] IN F[Len(row)]
BigPictureBad(rows, w, h) ==
  IF Len(rows) # h \/ \E y \in 1 .. h : RowLen(rows[y]) # w THEN "picture has the wrong size"
  ELSE IF \E y \in 1 .. h : \E i \in 1 .. Len(rows[y]) : rows[y][i][1] = 9 THEN "a pixel was left unpainted"
  ELSE IF rows[1] # <<<<1, w>>>> \/ rows[h] # <<<<1, w>>>> THEN "top / bottom row not entirely white"
  ELSE IF \E y \in 2 .. h - 1 : LET r == rows[y] IN
            Len(r) < 3 \/ r[1] # <<1, 1>> \/ r[Len(r)] # <<1, 1>> \/ r[2][1] = 1 \/ r[Len(r) - 1][1] = 1
       THEN "no exact one-pixel white frame on the outermost columns"
  ELSE IF \E y \in {2, h - 1} : \E i \in 2 .. Len(rows[y]) - 1 : rows[y][i][1] = 1 THEN "white next to the frame"
  ELSE IF ~\E y \in 1 .. h : \E i, j, k \in 1 .. Len(rows[y]) : i < j /\ j < k /\ rows[y][i][1] = 2 /\ rows[y][j][1] = 3 /\ rows[y][k][1] = 4
       THEN "no row with red left of green left of blue" ELSE ""

TestImageBad(in, out) ==
  LET w == in[2]  h == in[3] IN
  IF out[1] # "ok" THEN "drawing the test image panicked"
  ELSE IF w < 32 \/ h < 32 THEN ""
  ELSE IF w * h <= 12000 THEN GoodPicture(Expand(out[2], w, h), w, h)
  ELSE BigPictureBad(out[2], w, h)
\* DRIFT: the real picture differs from the model of the drawing program (not an alarm)
TestImageDrift(r) == r.f = "testimage" /\ r.res = "ok" /\ r.out[1] = "ok" /\ r.in[2] > 0 /\ r.in[3] > 0 /\ r.in[2] <= 64 /\ r.in[3] <= 64
                     /\ Expand(r.out[2], r.in[2], r.in[3]) # TestImagePic(r.in[2], r.in[3])

---------------------------------------------------------------------------
RowBad(r) ==
  IF r.res # "ok" THEN "the function panicked" ELSE
  LET f == r.f  in == r.in  out == r.out IN
  CASE f = "madctl.new" -> MadRowBad(MadStart(in), out, 165)
    [] f = "madctl.from_options" -> MadRowBad(MadStart(in), out, 90)
    [] f = "madctl.seq" -> MadRowBad(FoldLeft(MadStep, MadStart(in[1]), in[2]), out, 165)
    [] f = "orient.word" -> OrientWordBad(in[1], in[2], out)
    [] f = "rotation.try_from_degree" -> IF out[1] = TryFromDegree(in[1]) THEN "" ELSE "angle parsed to the wrong rotation / wrongly accepted or rejected"
    [] f = "rotation.degree" -> IF out = <<90 * in[1], in[1] \in {0, 2}, in[1] \in {1, 3}>> THEN "" ELSE "wrong degree / is_horizontal / is_vertical"
    [] f = "refresh.flip" -> LET nv == Cardinality({i \in 1 .. Len(in[3]) : in[3][i] = "fv"})
                                 nh == Len(in[3]) - nv
                             IN IF out = <<(in[1] + nv) % 2, (in[2] + nh) % 2>> THEN "" ELSE "refresh-order flip wrong"
    [] f = "mock.display" -> IF out = <<0, FALSE, 240, 320, FALSE>> THEN "" ELSE "the documented mock display is not a default ILI9341"
    [] f = "rotation.all_angles" ->
         IF \E a \in 0 .. 359 : in[1][a + 1] # TryFromDegree(a) THEN "residue table wrong"
         ELSE IF out[1] # "ok" THEN "try_from_degree panicked for some i32"
         ELSE IF out[4] # 0 THEN "try_from_degree disagrees with its residue class for angle " \o ToString(out[5]) ELSE ""
    [] f = "dcs" -> LET e == ExpectedCmd(in)  a == DcsOneBad(e, out[1], 165) IN IF a # "" THEN a ELSE DcsOneBad(e, out[2], 90)
    [] f = "dcs.write_raw" -> IF out[1] /\ out[2] = <<<<"cmd", in[1], in[2], 1>>>> THEN "" ELSE "write_raw did not put exactly the instruction and bytes on the bus"
    [] f = "pixelformat.as_u8" -> IF out[1] = BppCode(in[1]) * 16 + BppCode(in[2]) THEN "" ELSE "pixel format byte wrong"
    [] f = "bpp.from_rgb_color" -> IF out = <<5, 6, 7>> THEN "" ELSE "bits per pixel of the colour types wrong"
    [] f = "colour.565x8" -> IF ~RoundTrip565(in) THEN "spec: 565 round trip" ELSE StreamBad(out, Words565x8(in), 2)
    [] f = "colour.666x8" -> IF ~RoundTrip666(in) THEN "spec: 666 round trip" ELSE StreamBad(out, Words666x8(in), 3)
    [] f = "colour.565x16" -> StreamBad(out, Words565x16(in), 1)
    [] f = "colour.565x8.rep" -> RepBad(out, in, LAMBDA i : Enc565x8(Col565(in, i)), 2)
    [] f = "colour.666x8.rep" -> RepBad(out, in, LAMBDA i : Enc666x8(Col666(in, i)), 3)
    [] f = "colour.565x16.rep" -> RepBad(out, in, LAMBDA i : <<Col565(in, i)>>, 1)
    [] f = "testimage" -> TestImageBad(in, out)
    [] OTHER -> "unknown table function"

Next ==
  /\ s.l <= Len(Rec)
  /\ LET hi == Min2(s.l + CHUNK - 1, Len(Rec))
         idx == {i \in s.l .. hi : RowBad(Rec[i]) # ""}
         new == [j \in 1 .. Cardinality(idx) |->
                   LET i == CHOOSE i \in idx : Cardinality({k \in idx : k < i}) = j - 1 IN
                   [row |-> i, f |-> Rec[i].f, in |-> Rec[i].in, what |-> RowBad(Rec[i])]]
     IN s' = [l |-> hi + 1, bad |-> s.bad \o new, rows |-> s.rows + (hi - s.l + 1),
              drift |-> s.drift + Cardinality({i \in s.l .. hi : TestImageDrift(Rec[i])})]
Spec == Init /\ [][Next]_vars

Final == (s.l = Len(Rec) + 1) =>
           /\ PrintT(<<"VIOL", ToJson(s.bad)>>)
           /\ PrintT(<<"STAT", ToJson([rows |-> s.rows, drift |-> s.drift])>>)
Consumed == TLCGet("stats").diameter - 1 = (Len(Rec) + CHUNK - 1) \div CHUNK
=============================================================================
