SPECIFICATION Spec
INVARIANT Final
POSTCONDITION Consumed
CHECK_DEADLOCK FALSE
CONSTANTS
  U16MAX = 65535
  PROFILE = "release"
  ROWCAP = 50
  BLOCKCAP = 100
