-------------------------------- MODULE Wire --------------------------------
(***************************************************************************)
(* The environment between the driver and the controller: SPI wire with    *)
(* its data/command line, the 8080 parallel pins with strobe sampling, the *)
(* reset pin and a virtual clock.  One operator,  WireOp , consumes one    *)
(* recorded low-level operation; per-call accumulators collect the facts   *)
(* the properties speak about (interface-level reconstruction, counts,     *)
(* failures, what happened after a failure).                               *)
(***************************************************************************)
EXTENDS Controller

BusWidth(iface) == IF iface \in {"p16", "rec_p16", "bus16"} THEN 16 ELSE 8

WireNew(W, H, iface, rm, hasRst) ==
  [dc |-> -1, wr |-> 1, rst |-> IF hasRst THEN -1 ELSE 1, d |-> [i \in 0..15 |-> -1],
   us |-> 0, ns |-> 0, bus |-> BusWidth(iface),
   ctl |-> CtlNew(W, H, BusWidth(iface), rm),
   \* per call
   cmds |-> <<>>, ntx |-> 0, nbytes |-> 0, nfail |-> 0, after |-> 0, wflags |-> {},
   nbus |-> 0, rstlog |-> <<>>, busBeforeRstHigh |-> 0, dcBad |-> 0, nstrobe |-> 0,
   t0us |-> 0, t0ns |-> 0, slpAt |-> <<>>]

BeginCall(w) ==
  [w EXCEPT !.cmds = <<>>, !.ntx = 0, !.nbytes = 0, !.nfail = 0, !.after = 0, !.wflags = {},
            !.nbus = 0, !.rstlog = <<>>, !.busBeforeRstHigh = 0, !.dcBad = 0, !.nstrobe = 0,
            !.t0us = w.us, !.t0ns = w.ns, !.slpAt = <<>>]

WFlag(w, f) == [w EXCEPT !.wflags = @ \cup {f}]

\* interface-level reconstruction: one entry per command byte with the data words that followed it.
\*   p : the first (up to) 16 data words;  n : number of data words
NoteCmd(w, b) == [w EXCEPT !.cmds = Append(@, [op |-> b, p |-> <<>>, n |-> 0, tx |-> 0])]
\* an SPI transaction with the data/command line high belongs to the data phase of the last command
NoteTx(w) == IF w.dc = 0 \/ w.cmds = <<>> THEN w
             ELSE [w EXCEPT !.cmds[Len(w.cmds)].tx = @ + 1]
NoteData(w, ws) ==
  IF ws = <<>> THEN w ELSE
  LET cs == IF w.cmds = <<>> THEN <<[op |-> -1, p |-> <<>>, n |-> 0, tx |-> 0]>> ELSE w.cmds
      k  == Len(cs)
      e  == cs[k]
      room == 16 - Len(e.p)
      add == IF room <= 0 THEN <<>> ELSE IF Len(ws) <= room THEN ws ELSE SubSeq(ws, 1, room)
  IN [w EXCEPT !.cmds = [cs EXCEPT ![k] = [op |-> e.op, p |-> e.p \o add, n |-> e.n + Len(ws), tx |-> e.tx]]]

\* a command byte / a chunk of data words reaches the controller
InReset(w) == w.rst = 0
DeliverCmd(w0, b) ==
  LET w == IF InReset(w0) \/ w0.rst = -1 THEN [w0 EXCEPT !.busBeforeRstHigh = @ + 1] ELSE w0
      w1 == [NoteCmd(w, b) EXCEPT !.nbus = @ + 1,
                                 !.slpAt = IF b \in {16, 17} THEN Append(@, <<w.us, w.ns>>) ELSE @]
  IN [w1 EXCEPT !.ctl = CtlCmd(w.ctl, b, w.us, w.ns)]
DeliverData(w0, ws) ==
  IF ws = <<>> THEN w0 ELSE
  LET w == IF InReset(w0) \/ w0.rst = -1 THEN [w0 EXCEPT !.busBeforeRstHigh = @ + 1] ELSE w0
  IN [NoteData(w, ws) EXCEPT !.ctl = CtlData(w.ctl, ws), !.nbus = @ + 1]

Failed(w, ok) == IF ok = 1 THEN w ELSE [w EXCEPT !.nfail = @ + 1]
\* a pin / bus operation counts as "after the failure" if a failure was already recorded in this call
Touch(w) == IF w.nfail > 0 THEN [w EXCEPT !.after = @ + 1] ELSE w

BurstLimit == 600000
RepWords(pat, n) == [i \in 1 .. n * Len(pat) |-> pat[((i - 1) % Len(pat)) + 1]]

BusWord(w) ==
  LET Lvl(i) == IF w.d[i] = 1 THEN 1 ELSE 0
      Sum[i \in 0..16] == IF i = 0 THEN 0 ELSE Sum[i - 1] + Lvl(i - 1) * Pow2(i - 1)
  IN Sum[w.bus]
BusUnknown(w) == \E i \in 0 .. w.bus - 1 : w.d[i] = -1

\* a rising edge of the write strobe latches (DC, D[..])
Strobe(w0, n) ==
  LET w1 == IF BusUnknown(w0) THEN WFlag(w0, "sampled_unknown") ELSE w0
      w  == [w1 EXCEPT !.nstrobe = @ + n]
      v  == BusWord(w)
  IN
  IF w.dc = 0 THEN
     (IF n # 1 THEN WFlag(DeliverCmd(w, v % 256), "repeated_command_strobe")
      ELSE IF v > 255 THEN WFlag(DeliverCmd(w, v % 256), "command_gt_255") ELSE DeliverCmd(w, v))
  ELSE LET w2 == IF w.dc = -1 THEN WFlag(w, "dc_unknown") ELSE w IN
       IF n > BurstLimit THEN WFlag(w2, "burst_too_big") ELSE DeliverData(w2, RepWords(<<v>>, n))

SpiWrite(w, bytes) ==
  IF bytes = <<>> THEN w ELSE
  LET w1 == [w EXCEPT !.nbytes = @ + Len(bytes)] IN
  IF w.dc = 0 THEN FoldLeft(DeliverCmd, w1, bytes)
  ELSE DeliverData(IF w.dc = -1 THEN WFlag(w1, "dc_unknown") ELSE w1, bytes)

SpiSub(w, sub) ==   \* one operation inside a multi-operation SPI transaction
  IF sub[1] = "w" THEN SpiWrite(w, sub[2])
  ELSE IF sub[1] = "t" THEN SpiWrite(w, sub[3])
  ELSE IF sub[1] = "ti" THEN SpiWrite(w, sub[2])
  ELSE w

Tick(w, us, ns) ==
  LET n == w.ns + ns IN [w EXCEPT !.us = @ + us + (n \div 1000), !.ns = n % 1000]

WireOp(w, op) ==
  LET k == op[1] IN
  CASE k = "dc"  -> LET w1 == Touch(w) IN
                    Failed(IF op[3] = 1 THEN [w1 EXCEPT !.dc = op[2]] ELSE w1, op[3])
    [] k = "wr"  -> LET w1 == Touch(w) IN
                    IF op[3] # 1 THEN Failed(w1, op[3])
                    ELSE IF w1.wr = 0 /\ op[2] = 1 THEN [Strobe(w1, 1) EXCEPT !.wr = 1]
                    ELSE [w1 EXCEPT !.wr = op[2]]
    [] k = "wrp" -> LET n == op[2] * 65536 + op[3]
                        w1 == IF w.nfail > 0 THEN [w EXCEPT !.after = @ + 2] ELSE w
                    IN [Strobe(w1, n) EXCEPT !.wr = 1]
    [] k = "d"   -> LET w1 == Touch(w) IN
                    Failed(IF op[4] \in {1, 2} THEN [w1 EXCEPT !.d[op[2]] = op[3]] ELSE w1, op[4])
    [] k = "rst" -> LET w1 == [Touch(w) EXCEPT !.rstlog = Append(@, <<op[2], w.us, w.ns, w.nbus>>)] IN
                    IF op[3] # 1 THEN Failed(w1, op[3])
                    ELSE IF op[2] = 0 THEN [w1 EXCEPT !.rst = 0, !.ctl = EndCmd(@)]
                    ELSE IF w1.rst = 0 THEN [w1 EXCEPT !.rst = 1, !.ctl = [HwReset(@) EXCEPT !.nhw = @ + 1, !.tslpU = -1]]
                    ELSE [w1 EXCEPT !.rst = 1]
    [] k = "spi" -> LET w1 == [NoteTx(Touch(w)) EXCEPT !.ntx = @ + 1] IN
                    \* 3: the transaction failed after delivering the bytes logged (a prefix of what was to be sent)
                    IF op[3] = 3 THEN Failed(SpiWrite(w1, op[2]), 3)
                    ELSE IF op[3] # 1 THEN Failed(w1, op[3]) ELSE SpiWrite(w1, op[2])
    [] k = "spitx" -> LET w1 == [NoteTx(Touch(w)) EXCEPT !.ntx = @ + 1] IN
                    IF op[3] # 1 THEN Failed(w1, op[3]) ELSE FoldLeft(SpiSub, w1, op[2])
    [] k = "dly" -> Tick(w, op[2], op[3])
    \* interface-level recorder (transport not under test)
    [] k = "cmd" -> LET w1 == Touch(w) IN
                    IF op[4] # 1 THEN Failed(w1, op[4]) ELSE DeliverData(DeliverCmd(w1, op[2]), op[3])
    [] k = "px"  -> LET w1 == Touch(w) IN
                    IF op[4] # 1 THEN Failed(w1, op[4]) ELSE DeliverData(w1, op[2])
    [] k = "rep" -> LET w1 == Touch(w)
                        n == op[3] * 65536 + op[4] IN
                    IF op[5] # 1 THEN Failed(w1, op[5])
                    ELSE IF op[3] > 9 THEN WFlag(w1, "burst_too_big")
                    ELSE DeliverData(w1, RepWords(op[2], n))
    [] OTHER -> WFlag(w, "unknown_wire_op")

\* at the return of a call the data received so far is visible in the framebuffer (the burst stays open)
---------------------------------------------------------------------------
\* framing of a drawing call (C08): nothing but groups  2A p4 . 2B p4 . 2C . pixels
Be(p, i) == p[i] * 256 + p[i + 1]
FramingErrors(c0, cmds, wpp, isDT) ==
  LET n == Len(cmds)
      cl == ColLimit(c0.madctl, c0.W, c0.H)
      pl == PageLimit(c0.madctl, c0.W, c0.H)
      BadAt(i) ==
        LET e == cmds[i]  ph == (i - 1) % 3 IN
        IF ph = 0 THEN
           IF e.op # 42 THEN "expected set-column-address"
           ELSE IF e.n # 4 THEN "set-column-address without exactly 4 parameter bytes"
           ELSE IF Be(e.p, 1) > Be(e.p, 3) THEN "column start > end"
           ELSE IF Be(e.p, 3) >= cl THEN "column end outside the framebuffer"
           ELSE IF i + 2 > n THEN "incomplete group" ELSE ""
        ELSE IF ph = 1 THEN
           IF e.op # 43 THEN "expected set-page-address"
           ELSE IF e.n # 4 THEN "set-page-address without exactly 4 parameter bytes"
           ELSE IF Be(e.p, 1) > Be(e.p, 3) THEN "page start > end"
           ELSE IF Be(e.p, 3) >= pl THEN "page end outside the framebuffer" ELSE ""
        ELSE
           IF e.op # 44 THEN "expected memory-write-start"
           ELSE IF wpp = 0 THEN ""
           ELSE IF e.n % wpp # 0 THEN "pixel data is not a whole number of pixels"
           ELSE IF isDT /\ cmds[i - 2].n = 4 /\ cmds[i - 1].n = 4 THEN
                LET a == cmds[i - 2].p  b == cmds[i - 1].p
                    ww == Be(a, 3) - Be(a, 1) + 1   wh == Be(b, 3) - Be(b, 1) + 1
                    np == e.n \div wpp
                IN IF ww > 0 /\ wh > 0 /\ wh <= MaxInt \div ww /\ np > ww * wh
                   THEN "pixel data larger than the window" ELSE ""
           ELSE ""
      bad == {i \in 1 .. n : BadAt(i) # ""}
  IN IF bad = {} THEN "" ELSE BadAt(CHOOSE i \in bad : \A j \in bad : i <= j)

Num2C(cmds) == Cardinality({i \in 1 .. Len(cmds) : cmds[i].op = 44})
Num2A(cmds) == Cardinality({i \in 1 .. Len(cmds) : cmds[i].op = 42})

RunOps(w, ops) == LET w1 == FoldLeft(WireOp, BeginCall(w), ops) IN [w1 EXCEPT !.ctl = ApplyBurst(@)]
=============================================================================
