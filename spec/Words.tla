------------------------------- MODULE Words -------------------------------
(***************************************************************************)
(* Machine arithmetic of the implementation, with the type widths as       *)
(* constants so that model checking can use scaled widths (U16MAX = 3 or   *)
(* 7) in which every wrap-around and overflow path is reachable in a tiny  *)
(* model, while trace validation uses the real widths.                     *)
(* PROFILE = "debug": an overflowing operation panics (PANIC);             *)
(* PROFILE = "release": it wraps.                                          *)
(***************************************************************************)
EXTENDS Integers

CONSTANTS U16MAX, PROFILE

PANIC == -1                               \* all modelled quantities are unsigned
Bad(v) == v < 0
U16MOD == U16MAX + 1

AsU16(v) == v % U16MOD                    \* `as u16` of an i32: two's-complement truncation
AddU16(a, b) == IF Bad(a) \/ Bad(b) THEN PANIC
                ELSE IF a + b > U16MAX THEN (IF PROFILE = "debug" THEN PANIC ELSE (a + b) % U16MOD)
                ELSE a + b
SubU16(a, b) == IF Bad(a) \/ Bad(b) THEN PANIC
                ELSE IF a < b THEN (IF PROFILE = "debug" THEN PANIC ELSE (a - b) % U16MOD)
                ELSE a - b
WrapAddU16(a, b) == (a + b) % U16MOD
=============================================================================
