#!/bin/bash
# confirm_mutant.sh <worktree dir> <k> : verify a sub-agent's mutant in its scratch worktree
# (clean tree: demo passes; mutant: builds with/without default features, existing tests pass, demo fails)
set -u
D=$1; K=$2
cd "$D" || exit 2
git checkout -q -- src 2>/dev/null; rm -f tests/demo*.rs
[ -f _out/patch$K.diff ] && [ -f _out/demo$K.rs ] || { echo "MISSING files"; exit 2; }
mkdir -p tests; cp _out/demo$K.rs tests/demo$K.rs
FLAGS=""
grep -qi "no-default-features" _out/notes$K.md 2>/dev/null && grep -qiE "(needs|requires|must|only).{0,40}no-default-features|no-default-features.{0,40}(needed|required|only)" _out/notes$K.md && FLAGS="--no-default-features"
clean=$(cargo test --offline $FLAGS --test demo$K 2>&1 | grep -E "^test result" | head -1)
git apply _out/patch$K.diff || { echo "PATCH DOES NOT APPLY"; rm -f tests/demo$K.rs; exit 2; }
b1=$(cargo build --offline 2>&1 | tail -1)
b2=$(cargo build --offline --no-default-features 2>&1 | tail -1)
mv tests/demo$K.rs /tmp/demo_hold_$$.rs
suite=$(cargo test --offline 2>&1 | grep -E "^test result" | tr '\n' ';')
mv /tmp/demo_hold_$$.rs tests/demo$K.rs
mut=$(cargo test --offline $FLAGS --test demo$K 2>&1 | grep -E "^test result" | head -1)
git checkout -q -- src; rm -f tests/demo$K.rs
echo "clean-demo : $clean"
echo "build      : $b1 | $b2"
echo "suite      : $suite"
echo "mutant-demo: $mut  (flags: $FLAGS)"
