#!/bin/bash
# devsync.sh : copy the development copy (/tmp/vcopy) back into /verif after its harness compiles
cd /tmp/vcopy/harness && cargo check --offline --quiet --features batch --target-dir /tmp/hcheck 2>&1 | grep -E "^error" -A8 | head -20 | grep -q . && { echo "harness does not compile: not synced"; exit 1; }
rsync -a --exclude 'target-*' --exclude work --exclude replays --exclude evidence --exclude .git --exclude harness/Cargo.toml --exclude harness/Cargo.lock /tmp/vcopy/ /verif/
echo synced
