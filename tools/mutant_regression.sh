#!/bin/bash
# mutant_regression.sh [dirs...] : every seeded change against the quick check of its own property -> seeded/MATRIX.txt
cd /verif
out=seeded/MATRIX.txt; : > $out.tmp
dirs=${@:-$(ls -d seeded/C*-*m* | sort)}
for d in $dirs; do
  p=$(python3 -c "import json;print(json.load(open('$d/meta.json'))['property'])")
  cd /repo && git status --short | grep -q . && { echo "/repo not clean"; exit 2; }
  git -C /repo apply /verif/$d/patch.diff || { echo "$(basename $d) $p PATCH-DOES-NOT-APPLY" >> /verif/$out.tmp; cd /verif; continue; }
  cd /verif
  o=$(./check $p --tier quick 2>&1); rc=$?
  git -C /repo checkout -- .
  first=$(echo "$o" | grep -E "first verdict|^  [a-z]" | head -1 | sed 's/^ *//' | cut -c1-140)
  echo "$(basename $d) $p exit=$rc violations=$(echo "$o" | grep -c '^VIOLATION') :: $first" >> $out.tmp
done
mv $out.tmp $out
echo "caught: $(grep -c 'exit=1' $out) of $(wc -l < $out)"
