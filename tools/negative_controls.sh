#!/bin/bash
# every design-level model has configurations that describe a known-bad design (the pinned tree before a repair, a
# plausible wrong refactoring); TLC must reject each of them.  Results: /verif/selftest/negative_controls.txt
cd /verif/spec
out=/verif/selftest/negative_controls.txt; mkdir -p /verif/selftest; : > $out
run() { # module cfg
  r=$(JAVA_TOOL_OPTIONS="-Xss1g -Xmx8g" timeout 1500 tlc -workers 4 -metadir /verif/work/neg.$$ -cleanup -noGenerateSpecTE -config $2.cfg $1.tla 2>&1 | grep -E "Error: (Invariant|Temporal)|is violated" | head -1)
  if [ -n "$r" ]; then echo "REJECTED  $1 / $2 : $r" | tee -a $out; else echo "ACCEPTED (!!) $1 / $2" | tee -a $out; fi
}
run MC_Placement MC_Placement_nostore      # defect 1: set_orientation does not store the orientation
run MC_Placement MC_Placement_prefix       # defect 2: draw_iter without the bounding-box filter
run MC_Spi MC_Spi_prefix                   # defect 3: send_repeated_pixel(_, 0) never returns
run MC_Small MC_Small_scroll_narrow        # defect 4: u16 sum in set_vertical_scroll_region
run MC_Small MC_Small_init_narrow          # init check without the u32 widening
run MC_Parallel MC_Parallel_notake         # bus cache without last.take()
run MC_ParXfer MC_ParXfer_fast2            # is_same comparing the first two words only
run MC_ParXfer MC_ParXfer_wrap             # defect 5: strobe count count * N formed in the machine word (release build: wraps)
run MC_ParXfer MC_ParXfer_ovf              # defect 5, overflow checks on: panics
run MC_Fused MC_Fused_nofuse_batch         # defect 6: draw_batch polls the pixel iterator after its first None
run MC_Fused MC_Fused_nofuse_contig        # defect 7: fill_contiguous ignores the None of its initial nth()
run MC_Builder MC_Builder_rstdrop           # reset_pin() drops the options set before it
run MC_Builder MC_Builder_endcache          # window end cached by display_offset(), stale after display_size()
run MC_Lifecycle MC_Lifecycle_flagfirst    # sleeping flag set before the command is sent
run MC_Lifecycle MC_Lifecycle_short        # delay shorter than 120 ms
run MC_Lifecycle MC_Lifecycle_skipredundant # a redundant sleep/wake skips its delay
rm -rf /verif/work/neg.$$
grep -c REJECTED $out
