#!/bin/bash
# round2.sh <props...>: confirm round-2 mutants under /tmp/mut2 and try them against their own property's quick check
cd /verif
for c in "$@"; do for k in 1 2; do
  r=$(tools/confirm_mutant.sh ${MUTROOT:-/tmp/mut2}/$c $k 2>&1)
  a=$(echo "$r" | grep -c "clean-demo : test result: ok"); b=$(echo "$r" | grep -c "33 passed"); m=$(echo "$r" | grep -c "mutant-demo: test result: FAILED")
  t=$(SHOW=1 tools/try_mutant.sh ${MUTROOT:-/tmp/mut2}/$c/_out/patch$k.diff $c 2>&1 | grep -E "^== |first verdict|^  [a-z]" | head -2 | tr '\n' ' ')
  echo "$c m$k confirm(clean-ok=$a suite-ok=$b mutant-fails=$m) :: $t"
done; done
