#!/bin/bash
export MUTROOT=/tmp/mut3
exec /verif/tools/round2.sh "$@"
