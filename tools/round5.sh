#!/bin/bash
# round5.sh <props...> : confirm round-5 mutants in their scratch worktrees (parallel) and try each against its own property's quick check
cd /verif
R=${MUTROOT:-/tmp/mut5}
( for c in "$@"; do echo $R/$c; done | xargs -P 4 -I{} bash -c 'for k in 1 2; do r=$(tools/confirm_mutant.sh {} $k 2>&1); a=$(echo "$r" | grep -c "clean-demo : test result: ok"); b=$(echo "$r" | grep -c "33 passed"); m=$(echo "$r" | grep -c "mutant-demo: test result: FAILED"); echo "$(basename {}) m$k confirm(clean-ok=$a suite-ok=$b mutant-fails=$m)"; done' >> work/round5_confirm.log 2>&1 ) &
for c in "$@"; do for k in 1 2; do
  t=$(SHOW=1 tools/try_mutant.sh $R/$c/_out/patch$k.diff $c 2>&1 | grep -E "^== |first verdict|^  [a-z]|not clean|does not apply" | head -2 | tr '\n' ' ')
  echo "$c m$k :: $t"
done; done >> work/round5_try.log 2>&1
wait
