#!/bin/bash
# run_all.sh <tier> [props...] : run the checks one after the other, print exit code and wall time of each
cd "$(dirname "$0")/.."
TIER=${1:-quick}; shift
PROPS=${@:-C01 C02 C03 C04 C05 C06 C07 C08 C09 C10 C11 C12 C13 C14 C15 C16 C17 C18 C19 C20}
[ -x harness/target-batch/debug/mvh ] || ./setup.sh
for p in $PROPS; do
  t0=$(date +%s)
  out=$(./check $p --tier $TIER 2>&1); rc=$?
  t1=$(date +%s)
  echo "== $p tier=$TIER exit=$rc wall=$((t1-t0))s"
  echo "$out" | grep -E "design-level|family|table|VIOLATION|TOOL-ERROR|KNOWN|DRIFT|done" | cut -c1-220
done
