#!/bin/bash
# seed_sweep.sh <seed...> : run every quick check under other seeds; any exit != 0 on the unchanged tree is a false alarm or a tool error
cd /verif
for s in "$@"; do
  for p in C01 C02 C03 C04 C05 C06 C07 C08 C09 C10 C11 C12 C13 C14 C15 C16 C17 C18 C19 C20; do
    out=$(VERIF_SEED=$s ./check $p --tier quick 2>&1); rc=$?
    [ $rc -ne 0 ] && { echo "seed=$s $p exit=$rc"; echo "$out" | grep -E "VIOLATION|first verdict|TOOL-ERROR|^  [a-z]" | head -4; }
  done
  echo "seed $s done"
done
