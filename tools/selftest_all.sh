#!/bin/bash
# binding demonstration for every property: results under /verif/selftest/
cd /verif
for p in C01 C02 C03 C04 C05 C06 C07 C08 C09 C10 C11 C12 C13 C14 C15 C16 C17 C18 C19 C20; do
  ./check $p --selftest 2>&1 | grep -E "^SELFTEST|false|TOOL-ERROR"
done
