#!/bin/bash
# store_mutant.sh <prop> <k> "<needs>" "<caught by>" : keep a confirmed seeded change under /verif/seeded/
P=$1; K=$2; NEEDS=$3; CAUGHT=$4
D=/verif/seeded/$P-m$K; mkdir -p $D
cp ${MUTROOT:-/tmp/mut}/$P/_out/patch$K.diff $D/patch.diff
cp ${MUTROOT:-/tmp/mut}/$P/_out/demo$K.rs $D/demo.rs
cp ${MUTROOT:-/tmp/mut}/$P/_out/notes$K.md $D/notes.md 2>/dev/null
python3 - "$P" "$K" "$NEEDS" "$CAUGHT" <<'PY'
import json, sys
p,k,needs,caught=sys.argv[1:5]
json.dump({"property":p,"breaks":p,"needs_to_manifest":needs,
 "confirmed":"tools/confirm_mutant.sh ${MUTROOT:-/tmp/mut}/%s %s: demo passes on the clean tree, crate builds with and without default features with the change, the 33 unit tests + doc tests pass with the change, demo fails with the change"%(p,k),
 "run":"cp demo.rs <worktree>/tests/demo.rs && cargo test --offline --test demo  (fails with patch.diff applied, passes without)",
 "checks_run":"tools/try_mutant.sh seeded/%s-m%s/patch.diff <props> (git -C /repo apply; ./check <prop> --tier quick; git -C /repo checkout -- .)"%(p,k),
 "caught_by":caught}, open("/verif/seeded/%s-m%s/meta.json"%(p,k),"w"), indent=1)
PY
echo stored $D
