#!/bin/bash
# store_round2.sh <prop> <k> "<needs>" "<caught by>"
P=$1; K=$2
D=/verif/seeded/$P-r2m$K; mkdir -p $D
cp /tmp/mut2/$P/_out/patch$K.diff $D/patch.diff; cp /tmp/mut2/$P/_out/demo$K.rs $D/demo.rs; cp /tmp/mut2/$P/_out/notes$K.md $D/notes.md 2>/dev/null
python3 - "$P" "$K" "$3" "$4" <<'PY'
import json, sys
p,k,needs,caught=sys.argv[1:5]
json.dump({"property":p,"breaks":p,"round":2,"needs_to_manifest":needs,
 "confirmed":"tools/confirm_mutant.sh /tmp/mut2/%s %s: demo passes on the clean tree; with the change the crate builds with and without default features, the 33 unit tests + doc tests pass, the demo fails"%(p,k),
 "run":"cp demo.rs <worktree>/tests/demo.rs && cargo test --offline --test demo  (fails with patch.diff applied, passes without)",
 "checks_run":"tools/try_mutant.sh seeded/%s-r2m%s/patch.diff <props>"%(p,k),
 "caught_by":caught}, open("/verif/seeded/%s-r2m%s/meta.json"%(p,k),"w"), indent=1)
PY
