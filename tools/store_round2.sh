#!/bin/bash
# store_round2.sh <prop> <k> "<needs>" "<caught by>"   (env: MUTROOT=/tmp/mut2 RTAG=r2m)
P=$1; K=$2; ROOT=${MUTROOT:-/tmp/mut2}; TAG=${RTAG:-r2m}
D=/verif/seeded/$P-$TAG$K; mkdir -p $D
cp $ROOT/$P/_out/patch$K.diff $D/patch.diff; cp $ROOT/$P/_out/demo$K.rs $D/demo.rs; cp $ROOT/$P/_out/notes$K.md $D/notes.md 2>/dev/null
python3 - "$P" "$K" "$3" "$4" "$ROOT" "$TAG" <<'PY'
import json, sys
p,k,needs,caught,root,tag=sys.argv[1:7]
json.dump({"property":p,"breaks":p,"round":int(tag[1]),"needs_to_manifest":needs,
 "confirmed":"tools/confirm_mutant.sh %s/%s %s: demo passes on the clean tree; with the change the crate builds with and without default features, the 33 unit tests + doc tests pass, the demo fails"%(root,p,k),
 "run":"cp demo.rs <worktree>/tests/demo.rs && cargo test --offline --test demo  (fails with patch.diff applied, passes without)",
 "checks_run":"tools/try_mutant.sh seeded/%s-%s%s/patch.diff <props>"%(p,tag,k),
 "caught_by":caught}, open("/verif/seeded/%s-%s%s/meta.json"%(p,tag,k),"w"), indent=1)
PY
