#!/bin/bash
# try_mutant.sh <patch.diff> <prop> [<prop> ...] : apply a seeded change to /repo, run the quick checks, undo it
P=$1; shift
cd /repo && git status --short | grep -q . && { echo "/repo not clean"; exit 2; }
git -C /repo apply "$P" || { echo "patch does not apply"; exit 2; }
for prop in "$@"; do
  out=$(cd /verif && ./check $prop --tier ${TIER:-quick} 2>&1); rc=$?
  echo "== $prop exit=$rc  $(echo "$out" | grep -c '^VIOLATION') violation lines"
  echo "$out" | grep -E "^VIOLATION|first verdict|^  [a-z]|TOOL-ERROR|DRIFT" | head -${SHOW:-4}
done
git -C /repo checkout -- . 
