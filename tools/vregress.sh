#!/bin/bash
# vregress.sh <out> <seeded dirs...> : like mutant_regression.sh, but in the scratch copy (/tmp/vcopy bound to /tmp/cleanrepo)
out=$1; shift
for d in "$@"; do
  p=$(python3 -c "import json;print(json.load(open('$d/meta.json'))['property'])")
  cd /tmp/cleanrepo && git checkout -q -- . 
  git -C /tmp/cleanrepo apply $d/patch.diff || { echo "$(basename $d) $p PATCH-DOES-NOT-APPLY" >> $out; continue; }
  o=$(cd /tmp/vcopy && ./check $p --tier quick 2>&1); rc=$?
  git -C /tmp/cleanrepo checkout -q -- .
  first=$(echo "$o" | grep -E "first verdict|^  [a-z]" | head -1 | sed 's/^ *//' | cut -c1-140)
  echo "$(basename $d) $p exit=$rc violations=$(echo "$o" | grep -c '^VIOLATION') :: $first" >> $out
done
echo "done" >> $out
