#!/bin/bash
# vtry.sh <patch.diff> <prop> [<prop> ...] : like try_mutant.sh, but in a scratch copy of /verif (/tmp/vcopy) bound to a
# scratch worktree of /repo (/tmp/cleanrepo), so that it can run while other checks use /repo.  Development aid only.
P=$1; shift
cd /tmp/cleanrepo && git checkout -q -- . && git status --short | grep -v '^??' | grep -q . && { echo "cleanrepo not clean"; exit 2; }
[ "$P" != "-" ] && { git -C /tmp/cleanrepo apply "$P" || { echo "patch does not apply"; exit 2; }; }
for prop in "$@"; do
  out=$(cd /tmp/vcopy && ./check $prop --tier ${TIER:-quick} 2>&1); rc=$?
  echo "== $prop exit=$rc  $(echo "$out" | grep -c '^VIOLATION') violation lines"
  echo "$out" | grep -E "^VIOLATION|first verdict|^  [a-z]|TOOL-ERROR|DRIFT" | head -${SHOW:-4}
done
git -C /tmp/cleanrepo checkout -q -- .
