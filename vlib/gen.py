"""Scenario generators (programs for the real code).  Deterministic in the seed.

Families follow DESIGN.md section 7: F-tiny (exhaustive small configurations), F-real (built-in models),
F-huge (extreme framebuffers / coordinates), F-long (long pixel streams).  Generators only produce
inputs; what the outputs must be is decided by the TLA+ trace specification.
"""
import itertools
import random

ORIENTS = [(r, m) for r in range(4) for m in (False, True)]
TINY_SIZES = [(1, 1), (1, 2), (1, 3), (2, 1), (2, 2), (2, 3), (3, 1), (3, 2), (3, 3), (4, 3)]

# built-in models: name -> (W, H, colour, supported ifaces for a Display)
MODELS = {
    "gc9107": (128, 160, "565", ["spi", "p8"]),
    "gc9a01": (240, 240, "565", ["spi", "p8", "p16"]),
    "ili9341_565": (240, 320, "565", ["spi", "p8", "p16"]),
    "ili9341_666": (240, 320, "666", ["spi", "p8"]),
    "ili9342c_565": (320, 240, "565", ["spi", "p8", "p16"]),
    "ili9342c_666": (320, 240, "666", ["spi", "p8"]),
    "ili9486_565": (320, 480, "565", ["p8", "p16"]),
    "ili9486_666": (320, 480, "666", ["spi", "p8"]),
    "ili9488_565": (320, 480, "565", ["spi", "p8", "p16"]),
    "ili9488_666": (320, 480, "666", ["spi", "p8"]),
    "rm67162": (240, 536, "565", ["spi", "p8"]),
    "st7735s": (132, 162, "565", ["spi", "p8", "p16"]),
    "st7789": (240, 320, "565", ["spi", "p8", "p16"]),
    "st7796": (320, 480, "565", ["spi", "p8", "p16"]),
}
REC_OF = {"spi": "rec", "p8": "rec_p8", "p16": "rec_p16"}


def windows(W, H):
    for w in range(1, W + 1):
        for h in range(1, H + 1):
            for ox in range(0, W - w + 1):
                for oy in range(0, H - h + 1):
                    yield (w, h, ox, oy)


def cfg(model, w=None, h=None, ox=None, oy=None, rot=0, mir=False, iface="rec", buf=64, rst=True,
        bgr=False, inv=False, refv=0, refh=0):
    c = {"model": model, "rot": rot, "mir": mir, "iface": iface, "buf": buf, "rst": rst,
         "bgr": bgr, "inv": inv, "refv": refv, "refh": refh}
    if w is not None:
        c.update({"w": w, "h": h, "ox": ox if ox is not None else 0, "oy": oy if oy is not None else 0})
    return c


def lsize(w, h, rot):
    return (w, h) if rot in (0, 2) else (h, w)


class Ids:
    def __init__(self, start=1):
        self.n = start - 1

    def next(self):
        self.n += 1
        return self.n


def scn(ids, c, calls, tag="", fault=None, budget=None):
    s = {"id": ids.next(), "cfg": c, "calls": calls, "tag": tag}
    if fault:
        s["fault"] = fault
    if budget:
        s["budget"] = budget
    return s


INIT = {"name": "init"}


def vary_builder_order(sc, rng, p=0.3):
    """the Builder calls in another order than the usual one (reset pin last, offset before size, ...), some of them
    preceded by a decoy call of the same kind whose values the real call overrides: the options a display is built
    with are the last ones given, whatever the order"""
    c = sc["cfg"]
    if c.get("model", "none") == "none" or "border" in c:
        return
    if not any(call["name"] in ("init", "reinit") for call in sc["calls"]):
        return
    # options that most families leave at their defaults: colour order, inversion and refresh order influence nothing
    # but the address-mode byte and the inversion command, whatever else the scenario does
    if rng.random() < 0.3 and not (c.get("bgr") or c.get("inv") or c.get("refv") or c.get("refh")) and not c["model"].startswith("tinybgr"):
        c["bgr"] = rng.random() < 0.5; c["inv"] = rng.random() < 0.5
        c["refv"] = rng.randrange(2); c["refh"] = rng.randrange(2)
    if rng.random() >= p:
        return
    steps = ["color", "invert", "refresh", "orient"]
    if c.get("w") is not None and c.get("h") is not None:
        steps.append("size")
    if c.get("ox") is not None and c.get("oy") is not None:
        steps.append("offset")
    if c.get("rst"):
        steps.append("rst")
    rng.shuffle(steps)
    for kind in rng.sample([s for s in steps if s != "rst"], rng.randrange(0, 3)):
        steps.insert(rng.randrange(0, steps.index(kind) + 1), kind + "0")
    c["border"] = steps

# ------------------------------------------------------------------------- program pieces


def prog_every_cell(lw, lh, c0=1):
    """set_pixel on every logical cell, distinct colours"""
    calls = []
    c = c0
    for y in range(lh):
        for x in range(lw):
            calls.append({"name": "set_pixel", "x": x, "y": y, "c": c})
            c += 1
    return calls


def all_rects(lw, lh, lo=-1, extra=1):
    """all rectangles with corner in lo..lw+extra and sizes 0..lw+extra+1"""
    for x in range(lo, lw + extra + 1):
        for y in range(lo, lh + extra + 1):
            for w in range(0, lw + extra + 2):
                for h in range(0, lh + extra + 2):
                    yield [x, y, w, h]


def inbounds_rects(lw, lh):
    for x in range(0, lw):
        for y in range(0, lh):
            for w in range(0, lw - x + 1):
                for h in range(0, lh - y + 1):
                    yield [x, y, w, h]


def rect_inb(r, lw, lh):
    return r[2] == 0 or r[3] == 0 or (r[0] >= 0 and r[1] >= 0 and r[0] + r[2] <= lw and r[1] + r[3] <= lh)


def tiny_models(sizes=TINY_SIZES):
    for (W, H) in sizes:
        yield "tiny565_%dx%d" % (W, H), W, H


# ------------------------------------------------------------------------- F-tiny placement


def f_tiny_placement(ids, rng, ifaces=("rec",), sizes=TINY_SIZES, sample=1.0, oob=False, batch_streams=True,
                     tag="tiny"):
    """For every tiny framebuffer, window and orientation: a program touching every cell through every
    drawing entry point.  With oob=True the DrawTarget calls also receive out-of-range arguments."""
    out = []
    for model, W, H in tiny_models(sizes):
        for (w, h, ox, oy) in windows(W, H):
            for (rot, mir) in ORIENTS:
                for iface in ifaces:
                    if sample < 1.0 and rng.random() > sample:
                        continue
                    lw, lh = lsize(w, h, rot)
                    buf = rng.choice([2, 3, 4, 5, 7, 64])
                    c = cfg(model, w, h, ox, oy, rot, mir, iface=iface, buf=buf, rst=rng.random() < 0.8)
                    calls = [INIT]
                    if not oob:
                        calls += prog_every_cell(lw, lh)
                        # raw window writes
                        sx = rng.randrange(lw); ex = rng.randrange(sx, lw)
                        sy = rng.randrange(lh); ey = rng.randrange(sy, lh)
                        n = (ex - sx + 1) * (ey - sy + 1)
                        calls.append({"name": "set_pixels", "win": [sx, sy, ex, ey],
                                      "colors": [100 + i for i in range(rng.randrange(0, n + 1))]})
                        calls.append({"name": "set_pixels", "win": [0, 0, lw - 1, lh - 1],
                                      "colors": [200 + i for i in range(lw * lh)]})
                        rects = list(inbounds_rects(lw, lh))
                    else:
                        rects = [r for r in all_rects(lw, lh) if not rect_inb(r, lw, lh)]
                    rng.shuffle(rects)
                    col = 300
                    for r in rects[:6]:
                        calls.append({"name": "fill_solid", "rect": r, "c": col}); col += 1
                    for r in rects[6:12]:
                        area = r[2] * r[3]
                        ln = rng.choice([0, 1, max(area - 1, 0), area, area + 3, -1])
                        calls.append({"name": "fill_contiguous", "rect": r, "colors": {"start": col, "len": ln}})
                        col += 40
                    # pixel streams
                    lo, hi = (0, 0) if not oob else (-2, 2)
                    for _ in range(4):
                        n = rng.randrange(0, 8)
                        px = []
                        for i in range(n):
                            if px and rng.random() < 0.6:      # continue the run
                                x, y = px[-1][0] + 1, px[-1][1]
                                if not oob and x >= lw:
                                    x, y = rng.randrange(lw), rng.randrange(lh)
                            else:
                                x, y = rng.randrange(lo, lw + hi), rng.randrange(lo, lh + hi)
                            px.append([x, y, col]); col += 1
                        calls.append({"name": "draw_iter", "px": px})
                    calls.append({"name": "clear", "c": col})
                    out.append(scn(ids, c, calls, tag=tag))
    return out


# ------------------------------------------------------------------------- boundary coordinates (F-huge style)

I32MIN, I32MAX = -2147483648, 2147483647


def boundary_coords(lw):
    s = {I32MIN, -65537, -65536, -1, 0, 1, lw - 1, lw, lw + 1, 255, 256, 65534, 65535, 65536, 65536 + max(lw - 1, 0),
         65536 + 1, I32MAX}
    return sorted(s)


def f_oob_streams(ids, rng, models, n_per_cfg=6, ifaces=("rec",), tag="oob-stream", stream_len=(1, 7)):
    """draw_iter streams mixing in-bounds pixels with boundary-value coordinates, in every position"""
    out = []
    for (model, W, H, wins) in models:
        for (w, h, ox, oy) in wins:
            for (rot, mir) in ORIENTS:
                lw, lh = lsize(w, h, rot)
                bx, by = boundary_coords(lw), boundary_coords(lh)
                for iface in ifaces:
                    c = cfg(model, w, h, ox, oy, rot, mir, iface=iface, buf=rng.choice([2, 5, 64]))
                    calls = [INIT, {"name": "clear", "c": 9}]
                    col = 1000
                    for _ in range(n_per_cfg):
                        n = rng.randrange(*stream_len)
                        px = []
                        for i in range(n):
                            r = rng.random()
                            if r < 0.45:
                                x, y = rng.randrange(lw), rng.randrange(lh)
                            elif r < 0.6 and px:
                                x, y = px[-1][0] + 1, px[-1][1]
                            elif r < 0.8:
                                x, y = rng.choice(bx), rng.randrange(lh)
                            elif r < 0.9:
                                x, y = rng.randrange(lw), rng.choice(by)
                            else:
                                x, y = rng.choice(bx), rng.choice(by)
                            if x > I32MAX:
                                x = I32MAX
                            px.append([x, y, col]); col += 1
                        calls.append({"name": "draw_iter", "px": px})
                    out.append(scn(ids, c, calls, tag=tag))
    return out


def valid_rect(x, y, w, h):
    # embedded-graphics computes top_left + size in i32 (Rectangle::bottom_right): both sums must fit
    return x + w <= I32MAX and y + h <= I32MAX and w < 2 ** 31 and h < 2 ** 31


def f_oob_rects(ids, rng, models, n_per_cfg=10, ifaces=("rec",), tag="oob-rect"):
    """fill_solid / fill_contiguous with boundary-value corners and sizes (valid embedded-graphics rectangles only)"""
    out = []
    for (model, W, H, wins) in models:
        for (w, h, ox, oy) in wins:
            for (rot, mir) in ORIENTS:
                lw, lh = lsize(w, h, rot)
                xs = [I32MIN, -65536, -lw - 1, -lw, -2, -1, 0, 1, lw - 1, lw, lw + 1, 65535, 65536, I32MAX]
                ys = [I32MIN, -65536, -lh - 1, -lh, -2, -1, 0, 1, lh - 1, lh, lh + 1, 65535, 65536, I32MAX]
                ws = [0, 1, 2, lw - 1, lw, lw + 1, 2 * lw + 1, 65535, 65536, 65537, 2 ** 31 - 1]
                hs = [0, 1, 2, lh - 1, lh, lh + 1, 2 * lh + 1, 65535, 65536, 65537, 2 ** 31 - 1]
                for iface in ifaces:
                    c = cfg(model, w, h, ox, oy, rot, mir, iface=iface, buf=rng.choice([3, 4, 64]))
                    calls = [INIT, {"name": "clear", "c": 7}]
                    col = 2000
                    k = 0
                    tries = 0
                    while k < n_per_cfg and tries < 200:
                        tries += 1
                        x, y, rw, rh = rng.choice(xs), rng.choice(ys), max(rng.choice(ws), 0), max(rng.choice(hs), 0)
                        if not valid_rect(x, y, rw, rh):
                            continue
                        # keep the number of points and the work bounded: the visible part is small on these models,
                        # the clipped-away part costs only iterator skips
                        if rw * rh >= 2 ** 31:
                            continue
                        k += 1
                        if rng.random() < 0.5:
                            calls.append({"name": "fill_solid", "rect": [x, y, rw, rh], "c": col}); col += 1
                        else:
                            area = rw * rh
                            ln = rng.choice([0, 1, 5, area, area + 3, -1])
                            if ln > 2 ** 31 - 2:
                                ln = -1
                            calls.append({"name": "fill_contiguous", "rect": [x, y, rw, rh],
                                          "colors": {"start": col, "len": ln}})
                            col += 97
                    out.append(scn(ids, c, calls, tag=tag))
    return out


def tiny_model_list(sizes, rng=None, max_windows=None):
    res = []
    for (W, H) in sizes:
        wins = list(windows(W, H))
        if rng is not None and max_windows is not None and len(wins) > max_windows:
            wins = rng.sample(wins, max_windows)
        res.append(("tiny565_%dx%d" % (W, H), W, H, wins))
    return res


def real_model_list(rng, names=None, n_windows=2, full=False, maxside=48):
    """built-in models with panel windows anywhere in the framebuffer; full=True adds the full-size window
    (a 76 800-cell picture makes every validated call cost ~0.1 s, so full size is for the thorough tier)"""
    res = []
    for name in (names or MODELS.keys()):
        W, H, col, ifs = MODELS[name]
        # full-size pictures are expensive to validate (up to 153 600 cells per comparison): three models only
        wins = [(W, H, 0, 0)] if full and name in ("gc9107", "st7735s", "st7789") else []
        for _ in range(n_windows - len(wins)):
            w = rng.randrange(1, min(W, maxside) + 1); h = rng.randrange(1, min(H, maxside) + 1)
            wins.append((w, h, rng.choice([0, W - w, rng.randrange(0, W - w + 1)]), rng.choice([0, H - h, rng.randrange(0, H - h + 1)])))
        res.append((name, W, H, wins))
    return res


# ------------------------------------------------------------------------- F-long: long pixel streams (batching)

def long_stream(rng, lw, lh, oob=False, maxlen=400):
    """structured random stream: runs around the capacities, stacked equal rows, shape changes, repeats, reversals"""
    px = []
    col = [1]

    def emit(x, y):
        px.append([x, y, col[0] % 65536]); col[0] += 1

    def run_(x, y, n, step=1):
        for i in range(n):
            emit(x + i * step, y)

    while len(px) < maxlen:
        kind = rng.choice(["run", "run", "stack", "stack", "rev", "dup", "scatter", "col", "gap"])
        if kind == "run":
            n = rng.choice([1, 2, 3, 49, 50, 51, 99, 100, 101, 150]); n = min(n, lw)
            x = rng.randrange(0, lw - n + 1); y = rng.randrange(lh)
            run_(x, y, n)
        elif kind == "stack":
            n, rows = rng.choice([(25, 4), (50, 2), (10, 10), (10, 11), (33, 3), (34, 3), (20, 5), (20, 6), (1, 100), (1, 101), (2, 50), (2, 51), (7, 3)])
            n = min(n, lw); rows = min(rows, lh)
            x = rng.randrange(0, lw - n + 1); y = rng.randrange(0, lh - rows + 1)
            for r in range(rows):
                run_(x, y + r, n)
            if rng.random() < 0.4:   # one more row of a different shape
                run_(min(x + 1, lw - 1), min(y + rows, lh - 1), 1)
        elif kind == "rev":
            n = min(rng.randrange(1, 8), lw); x = rng.randrange(0, lw - n + 1); y = rng.randrange(lh)
            run_(x + n - 1, y, n, -1)
        elif kind == "dup":
            n = min(rng.randrange(1, 6), lw); x = rng.randrange(0, lw - n + 1); y = rng.randrange(lh)
            run_(x, y, n); run_(x, y, n)
        elif kind == "scatter":
            for _ in range(rng.randrange(1, 6)):
                emit(rng.randrange(lw), rng.randrange(lh))
        elif kind == "col":
            n = min(rng.randrange(1, 8), lh); x = rng.randrange(lw); y = rng.randrange(0, lh - n + 1)
            for i in range(n):
                emit(x, y + i)
        elif kind == "gap":
            n = min(rng.randrange(2, 6), lw // 2 if lw >= 4 else 1); y = rng.randrange(lh)
            x = rng.randrange(0, max(lw - 2 * n, 1))
            for i in range(n):
                emit(min(x + 2 * i, lw - 1), y)
        if oob and rng.random() < 0.3:
            far = rng.choice([65536, -65536, 131072, -131072, 65536 * 1000])
            k = rng.random()
            if k < 0.4:
                emit(rng.choice([-1, lw, lw + 1, 65536, -65536]), rng.randrange(lh))
            elif k < 0.7:       # aliases of visible positions modulo 2^16, also next to / inside a run being built
                emit((px[-1][0] + 1 if px and rng.random() < 0.5 else rng.randrange(lw)) + far, px[-1][1] if px else rng.randrange(lh))
            elif k < 0.9:
                emit(rng.randrange(lw), rng.randrange(lh) + far)
            else:
                emit(rng.randrange(lw) + far, rng.randrange(lh) - far)
    return px[:maxlen]


def f_long_streams(ids, rng, n, ifaces=("rec",), tag="long", maxlen=400, shapes=None, oob=False):
    out = []
    shapes = shapes or [("tiny565_300x3", 300, 3), ("tiny565_40x36", 40, 36), ("tiny565_2000x1", 2000, 1),
                        ("st7789", 240, 320), ("tiny565_7x5", 7, 5)]
    for i in range(n):
        model, W, H = rng.choice(shapes)
        rot, mir = rng.choice(ORIENTS)
        if W * H > 100000:
            w, h, ox, oy = W, H, 0, 0
            if rng.random() < 0.5:
                w = rng.randrange(60, W + 1); h = rng.randrange(60, H + 1)
                ox = rng.randrange(0, W - w + 1); oy = rng.randrange(0, H - h + 1)
        else:
            w = rng.randrange(max(1, W // 2), W + 1); h = rng.randrange(max(1, H // 2), H + 1)
            ox = rng.randrange(0, W - w + 1); oy = rng.randrange(0, H - h + 1)
        lw, lh = lsize(w, h, rot)
        iface = rng.choice(ifaces)
        c = cfg(model, w, h, ox, oy, rot, mir, iface=iface, buf=rng.choice([2, 3, 64, 100, 101, 512]))
        calls = [INIT]
        for _ in range(rng.randrange(1, 4)):
            calls.append({"name": "draw_iter", "px": long_stream(rng, lw, lh, oob=oob, maxlen=rng.choice([20, 120, maxlen]))})
            if rng.random() < 0.25:
                cand = [(r2, m2) for (r2, m2) in ORIENTS if lsize(w, h, r2) == (lw, lh)]
                r2, m2 = rng.choice(cand)
                calls.append({"name": "set_orientation", "rot": r2, "mir": m2})
                calls.append({"name": "draw_iter", "px": calls[-2]["px"][:60]})      # the same columns again
        out.append(scn(ids, c, calls, tag=tag))
    return out


def measure_rowcap(ids):
    """one long left-to-right run: the length of the first burst is the driver's row capacity (C20)"""
    px = [[x, 0, (x + 1) % 65536] for x in range(1000)]
    return scn(ids, cfg("tiny565_2000x1", 2000, 1, 0, 0, 0, False, iface="rec"), [INIT, {"name": "draw_iter", "px": px}],
               tag="measure_rowcap")


# ------------------------------------------------------------------------- orientation changes (C10)

def f_reorient(ids, rng, models, ifaces=("rec",), seq_len=3, per_cfg=1, tag="reorient", sample=1.0):
    out = []
    for (model, W, H, wins) in models:
        for (w, h, ox, oy) in wins:
            for (rot, mir) in ORIENTS:
                for iface in ifaces:
                    if sample < 1.0 and rng.random() > sample:
                        continue
                    for _ in range(per_cfg):
                        c = cfg(model, w, h, ox, oy, rot, mir, iface=iface, buf=rng.choice([2, 4, 64]),
                                bgr=rng.random() < 0.5, refv=rng.randrange(2), refh=rng.randrange(2), inv=rng.random() < 0.3)
                        calls = [INIT]
                        col = 10
                        for _ in range(rng.randrange(1, seq_len + 1)):
                            r2, m2 = rng.choice(ORIENTS)
                            calls.append({"name": "set_orientation", "rot": r2, "mir": m2})
                            lw, lh = lsize(w, h, r2)
                            # a pixel at every corner, a clipped fill, a stream, a clear
                            for (x, y) in {(0, 0), (lw - 1, 0), (0, lh - 1), (lw - 1, lh - 1)}:
                                calls.append({"name": "set_pixel", "x": x, "y": y, "c": col}); col += 1
                            calls.append({"name": "fill_solid", "rect": [lw - 1, lh - 1, 3, 3], "c": col}); col += 1
                            calls.append({"name": "fill_contiguous", "rect": [-1, 0, lw + 2, lh], "colors": {"start": col, "len": -1}}); col += 50
                            calls.append({"name": "draw_iter", "px": [[x, lh - 1, col + x] for x in range(lw)] + [[lw, 0, 5], [0, lh, 6]]}); col += 20
                            if rng.random() < 0.3:
                                calls.append({"name": "clear", "c": col}); col += 1
                        out.append(scn(ids, c, calls, tag=tag))
    return out


def f_contig_tiny(ids, rng, sample=1.0, ifaces=("rec",), sizes=((2, 3), (3, 2), (4, 3), (1, 1), (3, 3)), reorient=0.3):
    """every rectangle with corner in -2..lw+1 and size 0..lw+2 on small displays, stream lengths around the area"""
    out = []
    for (W, H) in sizes:
        model = "tiny565_%dx%d" % (W, H)
        for (w, h, ox, oy) in windows(W, H):
            for (rot, mir) in ORIENTS:
                if sample < 1.0 and rng.random() > sample:
                    continue
                lw, lh = lsize(w, h, rot)
                rects = list(all_rects(lw, lh, lo=-2, extra=1))
                rng.shuffle(rects)
                iface = rng.choice(ifaces)
                mdl = model
                if (W, H) in ((2, 3), (3, 2)) and iface in ("spi", "p8", "rec") and rng.random() < 0.3:
                    mdl = "tiny666_%dx%d" % (W, H)
                c = cfg(mdl, w, h, ox, oy, rot, mir, iface=iface, buf=rng.choice([3, 4, 5, 7, 64] if mdl != model else [2, 3, 64]))
                calls = [INIT, {"name": "clear", "c": 3}]
                if rng.random() < reorient:
                    # the same fills after a runtime orientation change that keeps the logical size
                    cand = [(r2, m2) for (r2, m2) in ORIENTS if lsize(w, h, r2) == (lw, lh) and (r2, m2) != (rot, mir)]
                    r2, m2 = rng.choice(cand)
                    calls.append({"name": "set_orientation", "rot": r2, "mir": m2})
                col = 50
                for r in rects[:14]:
                    area = r[2] * r[3]
                    for ln in rng.sample([0, 1, max(area - 1, 0), area, area + 3, -1, rng.randrange(0, area + 1), rng.randrange(0, area + 1)], 2):
                        calls.append({"name": "fill_contiguous", "rect": r, "colors": {"start": col, "len": ln}})
                        col += 64
                out.append(scn(ids, c, calls, tag="contig"))
    return out


# ------------------------------------------------------------------------- transports addressed directly (C06, C07, C20)

def split16(n):
    return [n >> 16, n & 0xFFFF]


def xcfg(iface, buf=0):
    return {"model": "none", "iface": iface, "buf": buf}


RAMWR = {"name": "xport.send_command", "op": 44, "params": []}


def pix_words(rng, n, wbits, kind="rand", base=0):
    m = (1 << wbits) - 1
    if kind == "same":
        v = rng.randrange(m + 1)
        return [v] * n
    if kind == "seq":
        return [(base + i) & m for i in range(n)]
    return [rng.randrange(m + 1) for _ in range(n)]


def f_spi_grid(ids, rng, sample=1.0, big=0):
    """the real SpiInterface over the recording SPI device: buffer lengths N..4N+1, counts 0..3*capacity+2,
    parameter lengths 0..17, distinct byte values (so that loss, duplication, reordering and stale bytes show)"""
    out = []
    for n in (1, 2, 3):
        for buf in list(range(n, 4 * n + 2)) + [64]:
            cap = buf // n
            counts = sorted(set(list(range(0, 3 * cap + 3)) + [7 * cap, 7 * cap + 1]))
            if sample < 1.0:
                counts = [c for c in counts if c in (0, 1, cap, cap + 1, 2 * cap) or rng.random() < sample]
            calls = [RAMWR]
            for cnt in counts:
                calls.append({"name": "xport.send_pixels", "n": n,
                              "px": [pix_words(rng, n, 8, "seq", base=rng.randrange(256)) for _ in range(cnt)]})
            out.append(scn(ids, xcfg("spi", buf), calls, tag="spi-pixels", budget=20000))
            calls = [RAMWR]
            for cnt in counts:
                calls.append({"name": "xport.send_repeated_pixel", "n": n,
                              "pixel": pix_words(rng, n, 8, rng.choice(["rand", "seq", "same"])), "count": split16(cnt)})
            out.append(scn(ids, xcfg("spi", buf), calls, tag="spi-repeat", budget=20000))
    # one interface object used with different words-per-pixel in turn (a display of another colour depth built over
    # a released interface): whatever the interface remembers from the earlier pixel size must not leak into the next
    for buf in (4, 5, 7, 8, 64, 100):
        calls = [RAMWR]
        for _ in range(6 if sample >= 1 else 4):
            n = rng.choice([1, 2, 3])
            if buf < n:
                continue
            cap = buf // n
            cnt = rng.choice([cap, 2 * cap + 1, 31 * cap, 7])
            if rng.random() < 0.5:
                calls.append({"name": "xport.send_pixels", "n": n, "px": [pix_words(rng, n, 8, "seq", base=rng.randrange(256)) for _ in range(cnt)]})
            else:
                calls.append({"name": "xport.send_repeated_pixel", "n": n, "pixel": pix_words(rng, n, 8, rng.choice(["seq", "same"])), "count": split16(cnt)})
            calls.append(RAMWR)
        out.append(scn(ids, xcfg("spi", buf), calls, tag="spi-mixed-n", budget=40000))
    # a staging buffer of 64 KiB and more, filled completely by one stream (indices / lengths narrower than usize)
    for (n, buf) in ((2, 65536), (3, 65540)):
        cnt = buf // n + 7
        out.append(scn(ids, xcfg("spi", buf), [RAMWR, {"name": "xport.send_pixels", "n": n, "px": [[(i * 7 + j) % 256 for j in range(n)] for i in range(cnt)]},
                                               RAMWR, {"name": "xport.send_repeated_pixel", "n": n, "pixel": [1, 2, 3][:n], "count": split16(cnt)}],
                       tag="spi-big-buffer", budget=20000))
    # commands with parameter lists of length 0..17+
    for buf in (1, 2, 3, 5, 64):
        calls = []
        for ln in list(range(0, 19)) + [32]:
            op = rng.choice([0x2A, 0x2B, 0x36, 0x3A, 0xB1, 0xE0, 0xF0, 0x11, 0x29, 0x2C, 0x00, 0xFF])
            calls.append({"name": rng.choice(["xport.send_command", "xport.write_raw"]), "op": op,
                          "params": [(17 * ln + 3 * i + 1) % 256 for i in range(ln)]})
        out.append(scn(ids, xcfg("spi", buf), calls, tag="spi-commands", budget=20000))
    # repeat counts of 2^31 pixels and more (count * N does not fit a u32): the call must still be sending when the
    # operation budget of the recording ends
    for n, cnt in huge_counts(rng):
        buf = rng.choice([n, n + 1, 4 * n, 64, 65])
        out.append(scn(ids, xcfg("spi", buf), [RAMWR, {"name": "xport.send_repeated_pixel", "n": n, "pixel": pix_words(rng, n, 8, rng.choice(["seq", "same"])),
                                                       "count": split16(cnt)}], tag="spi-huge", budget=3000))
    # larger seeded random buffers / counts
    for _ in range(big):
        n = rng.choice([2, 3])
        buf = rng.choice([n, n + 1, 63, 64, 65, 255, 256, 1000, 4096])
        cap = buf // n
        calls = [RAMWR]
        for _ in range(3):
            cnt = rng.choice([0, 1, cap - 1, cap, cap + 1, 2 * cap, 3 * cap + 1, rng.randrange(0, 20000)])
            cnt = max(cnt, 0)
            if rng.random() < 0.5:
                calls.append({"name": "xport.send_repeated_pixel", "n": n, "pixel": pix_words(rng, n, 8), "count": split16(cnt)})
            else:
                cnt = min(cnt, 3000)
                calls.append({"name": "xport.send_pixels", "n": n, "px": [pix_words(rng, n, 8) for _ in range(cnt)]})
            calls.append(RAMWR)
        out.append(scn(ids, xcfg("spi", buf), calls, tag="spi-big", budget=200000))
    return out


def huge_counts(rng):
    """(words per pixel, count) with count >= 2^31, around the points where count * N wraps a u32"""
    M = 1 << 32
    out = [(1, M - 1), (2, 1 << 31), (2, (1 << 31) + 1), (2, (1 << 31) + rng.randrange(2, 9)), (2, M - 1),
           (3, M - 1), (3, 2863311531), (3, 2863311531 + rng.randrange(1, 5)), (3, rng.randrange(1 << 31, M))]
    return out


def walking(wbits):
    m = (1 << wbits) - 1
    vals = [0, m, 0x5555 & m, 0xAAAA & m]
    for i in range(wbits):
        vals.append(1 << i)
        vals.append(m ^ (1 << i))
    return vals


def f_parallel(ids, rng, sample=1.0, big=0):
    """the real ParallelInterface + Generic{8,16}BitBus over recording pins"""
    out = []
    for iface, wbits in (("p8", 8), ("p16", 16)):
        alpha = walking(wbits)
        # word sequences incl. equal consecutive words
        for n in (1, 2, 3):
            calls = [RAMWR]
            for _ in range(10 if sample >= 1 else 4):
                cnt = rng.randrange(0, 6)
                px = []
                for _ in range(cnt):
                    kind = rng.random()
                    if kind < 0.3 and px:
                        px.append(list(px[-1]))
                    elif kind < 0.5:
                        v = rng.choice(alpha); px.append([v] * n)
                    else:
                        px.append([rng.choice(alpha) for _ in range(n)])
                calls.append({"name": "xport.send_pixels", "n": n, "px": px})
            out.append(scn(ids, xcfg(iface), calls, tag="par-pixels"))
            calls = [RAMWR]
            for cnt in (0, 1, 2, 3, 4, 7):
                v = rng.choice(alpha); u = rng.choice([a for a in alpha if a != v])
                # all words equal, all different-ish, and every partial-equality pattern (v v u / v u v / u v v)
                pats = [[v] * n]
                if n == 2:
                    pats += [[v, u], [u, v]]
                if n == 3:
                    pats += [[v, v, u], [v, u, v], [u, v, v], [v, u, (u ^ v) & ((1 << wbits) - 1)]]
                for pixel in pats:
                    calls.append({"name": "xport.send_repeated_pixel", "n": n, "pixel": pixel, "count": split16(cnt)})
            out.append(scn(ids, xcfg(iface), calls, tag="par-repeat"))
        # commands: instruction then parameters; D/C low only at the instruction
        calls = []
        for ln in list(range(0, 8)) + [16, 17]:
            op = rng.choice([0x2A, 0x36, 0xB1, 0x2C, 0x00, 0xFF, 0x55, 0xAA])
            calls.append({"name": "xport.send_command", "op": op, "params": [rng.choice(walking(8)) for _ in range(ln)]})
        out.append(scn(ids, xcfg(iface), calls, tag="par-commands"))
        # every value after every value on the bus directly (change mask), walking patterns
        busname = "bus8" if wbits == 8 else "bus16"
        seq = []
        for a in alpha:
            seq.append(a)
            seq.append(rng.choice(alpha))
        out.append(scn(ids, xcfg(busname), [{"name": "bus.set_value", "v": v} for v in seq + seq[:6] + [seq[5]] * 3], tag="bus-values"))
        # histories with injected data-pin failures (both effect modes), followed by more values
        for _ in range(int((40 if wbits == 8 else 60) * sample) + 4):
            vals = [rng.choice(alpha + [rng.randrange(1 << wbits)]) for _ in range(rng.randrange(3, 9))]
            # repeat a value right after a failure: the cache must not claim it
            faults = []
            calls = []
            for i, v in enumerate(vals):
                calls.append({"name": "bus.set_value", "v": v})
                if rng.random() < 0.4:
                    faults.append({"call": len(calls), "k": rng.randrange(1, wbits + 1), "effect": rng.random() < 0.5})
                    # what follows a failure: the value before it (the cache must not still claim it), the same
                    # value again (the cache must not claim it already), or something else
                    prev = vals[i - 1] if i else (v ^ 0x55) & ((1 << wbits) - 1)
                    nxt = rng.choice(["prev", "prev", "same", "same", "other"])
                    calls.append({"name": "bus.set_value", "v": prev if nxt == "prev" else v if nxt == "same" else rng.choice(alpha)})
                    if rng.random() < 0.35:
                        # two failures in a row, the second on another (often lower) pin, no success in between
                        faults.append({"call": len(calls), "k": rng.randrange(1, max(2, faults[-1]["k"] + 1)), "effect": rng.random() < 0.5})
                        calls.append({"name": "bus.set_value", "v": rng.choice([prev, v, rng.choice(alpha)])})
                    if rng.random() < 0.5:
                        calls.append({"name": "bus.set_value", "v": rng.choice([prev, v])})
            s = scn(ids, xcfg(busname), calls, tag="bus-faults")
            s["faults"] = faults
            out.append(s)
    # one pixel stream with 65 536 and more consecutive equal pixels (run counters narrower than the stream)
    for iface, wbits, n, cnt in (("p16", 16, 1, 65537), ("p8", 8, 2, 65536)):
        v = rng.randrange(1 << wbits)
        out.append(scn(ids, xcfg(iface), [RAMWR, {"name": "xport.send_pixels", "n": n, "px": [[v] * n] * cnt + [[v ^ 1] * n, [v] * n]}], tag="par-long-run", budget=1000000))
    for iface, wbits in (("p8", 8), ("p16", 16)):
        for n, cnt in huge_counts(rng):
            v = rng.randrange(1 << wbits); u = v ^ (1 << rng.randrange(wbits))
            for pixel in ([v] * n, [v] * (n - 1) + [u]):
                out.append(scn(ids, xcfg(iface), [RAMWR, {"name": "xport.send_repeated_pixel", "n": n, "pixel": pixel, "count": split16(cnt)}],
                               tag="par-huge", budget=3000))
    for _ in range(big):
        iface, wbits = rng.choice([("p8", 8), ("p16", 16)])
        n = rng.choice([1, 2, 3])
        v = rng.randrange(1 << wbits)
        cnt = rng.choice([100, 1000, 65535, 65536, 65537, 100000])
        # (each strobe is two pin operations, each changed data pin one more: the budget must cover the legitimate work)
        out.append(scn(ids, xcfg(iface), [RAMWR, {"name": "xport.send_repeated_pixel", "n": n, "pixel": [v] * n, "count": split16(cnt)},
                                         RAMWR, {"name": "xport.send_repeated_pixel", "n": 2, "pixel": [v, v ^ 1], "count": split16(min(cnt, 2000))}],
                       tag="par-big", budget=4 * cnt * n + 100000))
    return out


# ------------------------------------------------------------------------- init acceptance (C09)

def f_init_grid(ids, rng, nrandom=2000, grid_sample=1.0):
    out = []
    fbs = [("tiny565_1x1", 1, 1), ("tiny565_4x3", 4, 3), ("st7789", 240, 320), ("tiny565_65535x65535", 65535, 65535),
           ("tiny565_65535x1", 65535, 1), ("tiny565_1x65535", 1, 65535), ("gc9107", 128, 160)]

    def vals(F):
        return sorted({0, 1, 2, F - 1, F, F + 1, 32767, 32768, 65534, 65535, max(F // 2, 0)} & set(range(0, 65536)))

    for model, W, H in fbs:
        tuples = set()
        for w in vals(W):
            for ox in vals(W):
                # one dimension at a time plus a sample of the full product
                tuples.add((w, H, ox, 0)); tuples.add((w, 1, ox, H - 1)); tuples.add((w, 0, ox, 0))
        for h in vals(H):
            for oy in vals(H):
                tuples.add((W, h, 0, oy)); tuples.add((1, h, W - 1, oy)); tuples.add((0, h, 0, oy))
        full = list(itertools.product(vals(W), vals(H), vals(W), vals(H)))
        rng.shuffle(full)
        tuples.update(full[:int(400 * grid_sample)])
        for _ in range(nrandom // len(fbs)):
            r = rng.random()
            if r < 0.3:
                tuples.add(tuple(rng.randrange(65536) for _ in range(4)))
            elif r < 0.6:   # near the acceptance boundary
                w = rng.randrange(0, W + 2); h = rng.randrange(0, H + 2)
                tuples.add((w, h, max(0, W - w + rng.randrange(-1, 2)), max(0, H - h + rng.randrange(-1, 2))))
            else:           # wrap-around candidates: offset + size >= 65536
                w = rng.randrange(1, 65536); h = rng.randrange(1, 65536)
                tuples.add((w, h, (65536 - w + rng.randrange(0, 3)) % 65536, (65536 - h + rng.randrange(0, 3)) % 65536))
        for (w, h, ox, oy) in sorted(tuples):
            if not all(0 <= v <= 65535 for v in (w, h, ox, oy)):
                continue
            c = cfg(model, w, h, ox, oy, rng.randrange(4), rng.random() < 0.5, iface=rng.choice(["rec", "spi"]) if W < 1000 else "rec",
                    buf=16, rst=rng.random() < 0.5)
            out.append(scn(ids, c, [INIT], tag="init-grid"))
    # every built-in model: the acceptance rule is the Builder's alone, no model may add to it (odd sizes and
    # offsets, one-pixel windows in the far corner, ...) or touch the hardware before a rejection
    for model, (W, H, _col, ifs) in MODELS.items():
        tuples = set()
        for w in (1, 2, 3, W - 1, W, W + 1):
            for ox in (0, 1, W - w, W - w + 1):
                tuples.add((w, H, ox, 0)); tuples.add((w, 1, ox, H - 1))
        for h in (1, 2, 3, H - 1, H, H + 1):
            for oy in (0, 1, H - h, H - h + 1):
                tuples.add((W, h, 0, oy)); tuples.add((1, h, W - 1, oy))
        for _ in range(max(4, int(12 * min(grid_sample, 3.0)))):
            w = rng.randrange(1, W + 1); h = rng.randrange(1, H + 1)
            tuples.add((w, h, rng.randrange(0, W - w + 2), rng.randrange(0, H - h + 2)))
        tl = sorted(t for t in tuples if all(0 <= v <= 65535 for v in t))
        if grid_sample < 1.0:
            tl = [t for t in tl if rng.random() < max(grid_sample, 0.35)]
        for (w, h, ox, oy) in tl:
            phys = rng.choice(ifs)
            c = cfg(model, w, h, ox, oy, rng.randrange(4), rng.random() < 0.5, iface=rng.choice([REC_OF[phys], phys]), buf=16, rst=rng.random() < 0.5)
            out.append(scn(ids, c, [INIT], tag="init-grid"))
    return out


# ------------------------------------------------------------------------- model initialisation (C11, C17, C05-colmod)

def option_sets(rng, full):
    allopts = list(itertools.product((False, True), ORIENTS, (False, True), (0, 1), (0, 1), (True, False)))
    if full:
        return allopts
    # pairwise-ish cover: a latin-style sample plus the corners
    rng.shuffle(allopts)
    return allopts[:10]


def f_model_init(ids, rng, full=False, after=True):
    out = []
    for name, (W, H, col, ifs) in MODELS.items():
        kinds = []
        for phys in ("spi", "p8", "p16"):
            if phys in ifs or (name in ("gc9107", "rm67162") and phys == "p16") or (name == "ili9486_565" and phys == "spi"):
                # a Display can be built (supported or refused at run time)
                if phys == "p16" and col == "666":
                    continue
                kinds.append((phys, False))
                kinds.append((REC_OF[phys], False))
        # kinds that the colour type hides from Builder: Model::init directly
        for rec in ("rec", "rec_p8", "rec_p16"):
            kinds.append((rec, True))
        for (iface, direct) in kinds:
            for (bgr, (rot, mir), inv, refv, refh, rst) in option_sets(rng, full):
                if rng.random() < 0.35:
                    # a panel window with unequal margins somewhere in the framebuffer
                    pw = rng.randrange(1, W + 1); ph = rng.randrange(1, H + 1)
                    win = (pw, ph, rng.choice([0, W - pw, rng.randrange(0, W - pw + 1)]), rng.choice([0, H - ph, rng.randrange(0, H - ph + 1)]))
                else:
                    win = (None, None, None, None)
                c = cfg(name, win[0], win[1], win[2], win[3], rot, mir, iface=iface, buf=rng.choice([3, 16, 64]), rst=rst and not direct,
                        bgr=bgr, inv=inv, refv=refv, refh=refh)
                if direct:
                    out.append(scn(ids, c, [{"name": "model_init"}], tag="model-init-direct"))
                else:
                    calls = [INIT]
                    if after:
                        r2, m2 = rng.choice(ORIENTS)
                        calls.append({"name": "set_orientation", "rot": r2, "mir": m2})
                        calls.append({"name": "set_pixel", "x": 0, "y": 0, "c": 0x1234})
                    out.append(scn(ids, c, calls, tag="model-init"))
    return out


# ------------------------------------------------------------------------- lifecycle (C13)

def f_lifecycle(ids, rng, n_per_model=3, length=12, models=None, ifaces=None, fault_rate=0.0, any_fault_rate=0.0):
    out = []
    for name in (models or MODELS.keys()):
        W, H, col, ifs = MODELS[name]
        for _ in range(n_per_model):
            phys = rng.choice(ifs)
            iface = rng.choice([phys, REC_OF[phys]]) if ifaces is None else rng.choice(ifaces)
            w = rng.randrange(1, 9); h = rng.randrange(1, 9)
            c = cfg(name, w, h, rng.randrange(0, W - w + 1), rng.randrange(0, H - h + 1), rng.randrange(4), rng.random() < 0.5,
                    iface=iface, buf=rng.choice([3, 16, 64]), rst=rng.random() < 0.5)
            calls = [INIT]
            faults = []
            for _ in range(rng.randrange(2, length + 1)):
                k = rng.choice(["sleep", "sleep", "wake", "wake", "draw", "orient", "scroll", "region", "tear", "clear", "raw"])
                if k in ("sleep", "wake"):
                    calls.append({"name": k})
                    if rng.random() < fault_rate:
                        # fail one of the (up to 4) low-level operations of this sleep/wake; if the call has fewer
                        # operations the fault simply does not fire
                        faults.append({"call": len(calls), "k": rng.randrange(1, 5), "effect": False})
                elif k == "draw":
                    calls.append({"name": "set_pixel", "x": 0, "y": 0, "c": rng.randrange(65536)})
                elif k == "orient":
                    r2, m2 = rng.choice(ORIENTS)
                    calls.append({"name": "set_orientation", "rot": r2, "mir": m2})
                elif k == "scroll":
                    calls.append({"name": "scroll_offset", "v": rng.randrange(65536)})
                elif k == "region":
                    t = rng.randrange(0, H + 1)
                    calls.append({"name": "scroll_region", "top": t, "bottom": rng.randrange(0, H - t + 1)})
                elif k == "tear":
                    calls.append({"name": "tearing", "mode": rng.choice(["off", "v", "hv"])})
                elif k == "raw":
                    # vendor commands through the raw DCS access (never one the controller model decodes)
                    calls.append({"name": "raw", "op": rng.choice([0x51, 0x53, 0xB1, 0xC5, 0xE0]),
                                  "params": [rng.randrange(256) for _ in range(rng.randrange(0, 5))]})
                else:
                    calls.append({"name": "clear", "c": rng.randrange(65536)})
                if k not in ("sleep", "wake") and rng.random() < any_fault_rate:
                    # a failure inside some other call: whatever it leaves behind (bus caches, staged bytes) must not
                    # make a later sleep / wake send the wrong command
                    faults.append({"call": len(calls), "k": rng.randrange(1, 30), "effect": False})
            sc_ = scn(ids, c, calls, tag="lifecycle")
            if faults:
                sc_["faults"] = faults
            out.append(sc_)
    return out


# ------------------------------------------------------------------------- scrolling (C16)

def f_scroll(ids, rng, nrandom=200, offsets="sample"):
    out = []
    models = list(MODELS.keys()) + ["tiny565_1x1", "tiny565_65535x65535", "tiny565_1x65535", "tiny565_4x3"]
    for name in models:
        if name in MODELS:
            W, H = MODELS[name][0], MODELS[name][1]
        else:
            W, H = [int(v) for v in name.split("_")[1].split("x")]
        bv = sorted({0, 1, 2, H - 1, H, H + 1, H // 2, 32767, 32768, 65534, 65535} & set(range(65536)))
        pairs = list(itertools.product(bv, bv))
        for _ in range(nrandom // len(models) + 1):
            t = rng.randrange(65536)
            pairs.append((t, rng.choice([rng.randrange(65536), max(H - t, 0) % 65536, (H - t + 1) % 65536, (65536 - t) % 65536])))
        rng.shuffle(pairs)
        for chunk in range(0, len(pairs), 40):
            rot, mir = rng.choice(ORIENTS)
            iface = "rec" if name not in MODELS else rng.choice([REC_OF[MODELS[name][3][0]], "rec" if "spi" in MODELS[name][3] else "rec_p8"])
            # every option that must NOT influence the scroll commands takes every value
            c = cfg(name, 1, 1, 0, 0, rot, mir, iface=iface, rst=rng.random() < 0.5, bgr=rng.random() < 0.5,
                    inv=rng.random() < 0.5, refv=rng.randrange(2), refh=rng.randrange(2))
            calls = [INIT]
            for (t, b) in pairs[chunk:chunk + 40]:
                if rng.random() < 0.05:
                    calls.append({"name": rng.choice(["sleep", "wake"])})      # scrolling set-up is independent of the power state
                calls.append({"name": "scroll_region", "top": t, "bottom": b})
                if rng.random() < 0.3:
                    calls.append({"name": "scroll_offset", "v": rng.choice(bv + [rng.randrange(65536)])})
            out.append(scn(ids, c, calls, tag="scroll"))
    if offsets == "all":
        for base in range(0, 65536, 4096):
            c = cfg("st7789", 1, 1, 0, 0, 0, False, iface="rec")
            out.append(scn(ids, c, [INIT] + [{"name": "scroll_offset", "v": v} for v in range(base, base + 4096)], tag="scroll-offsets"))
    return out


# ------------------------------------------------------------------------- fault enumeration (C12)

FAULT_OPS = [
    {"name": "set_pixel", "x": 1, "y": 0, "c": 0x0F0F},
    {"name": "set_pixels", "win": [0, 0, 1, 1], "colors": [1, 2, 3, 4]},
    {"name": "draw_iter", "px": [[0, 0, 11], [1, 0, 12], [0, 1, 13], [1, 1, 14], [1, 0, 15]]},
    {"name": "fill_solid", "rect": [0, 0, 2, 2], "c": 0x1111},
    {"name": "fill_solid", "rect": [-1, -1, 3, 2], "c": 0x1234},
    {"name": "fill_contiguous", "rect": [-1, 0, 3, 2], "colors": {"start": 500, "len": -1}},
    {"name": "clear", "c": 0x00FF},
    {"name": "set_orientation", "rot": 1, "mir": True},
    {"name": "set_orientation", "rot": 2, "mir": False},
    {"name": "scroll_region", "top": 1, "bottom": 1},
    {"name": "scroll_offset", "v": 0x0102},
    {"name": "tearing", "mode": "hv"},
    {"name": "tearing", "mode": "off"},
    {"name": "sleep"},
    {"name": "wake"},
]


def fault_bases(ids, rng, quick):
    """fault-free base scenarios; each carries _target (index of the call whose low-level operations are
    failed one by one) and _ksample (fraction of k to take)"""
    out = []
    # A: init of every model on every physical transport it supports
    for name, (W, H, col, ifs) in MODELS.items():
        for iface in ifs:
            for rst in (True, False):
                if quick and not rst and iface != "spi":
                    continue
                c = cfg(name, 3, 2, W - 3, H - 2, rng.randrange(4), rng.random() < 0.5, iface=iface, buf=rng.choice([3, 6, 64]), rst=rst,
                        bgr=rng.random() < 0.5, inv=rng.random() < 0.5)
                s = scn(ids, c, [INIT], tag="fault-init")
                s["_target"] = 1
                s["_ksample"] = (1.0 if iface == "spi" else 0.06) if quick else 1.0
                out.append(s)
    # B: every other driver operation
    plats = [("tiny565_4x3", 3, 2, 1, 1, ["spi", "p8", "p16", "rec"]), ("tiny666_3x2", 2, 2, 1, 0, ["spi", "p8"]),
             ("st7789", 3, 2, 237, 318, ["spi", "p16"]), ("ili9486_666", 2, 2, 0, 478, ["spi"])]
    for (model, w, h, ox, oy, ifaces) in plats:
        for iface in ifaces:
            for op in FAULT_OPS:
                rot, mir = rng.choice(ORIENTS)
                c = cfg(model, w, h, ox, oy, rot, mir, iface=iface, buf=rng.choice([2, 3, 4, 6, 64]) if model.startswith("tiny565") else rng.choice([3, 6, 64]),
                        rst=True, bgr=rng.random() < 0.5)
                lw, lh = lsize(w, h, rot)
                pre = [INIT, {"name": "clear", "c": 0x0A0A}]
                if op["name"] == "wake":
                    pre.append({"name": "sleep"})
                op2 = dict(op)
                if op2["name"] == "set_pixels":
                    op2["win"] = [0, 0, lw - 1, lh - 1]; op2["colors"] = list(range(1, lw * lh + 1))
                # after the failure every drawing entry point must still work, whichever comes first
                # (a fill in the colour of the fill before the failure: what the failed call left staged must not be taken for it)
                post = [{"name": "clear", "c": rng.choice([0x0A0A, 0x0B0B])}, {"name": "set_pixel", "x": lw - 1, "y": lh - 1, "c": 7},
                        {"name": "draw_iter", "px": [[0, 0, 21], [1, 0, 22], [lw, 0, 23]]},
                        {"name": "fill_contiguous", "rect": [0, 0, lw, lh], "colors": {"start": 700, "len": -1}},
                        {"name": "fill_solid", "rect": [0, 0, lw, 1], "c": 0x0C0C},
                        {"name": "set_pixels", "win": [0, 0, lw - 1, lh - 1], "colors": list(range(31, 31 + lw * lh))}]
                rng.shuffle(post)
                if rng.random() < 0.3:
                    # a power cycle of the panel somewhere in the recovery (a driver may re-send cached state on wake-up)
                    at = rng.randrange(0, len(post))
                    post[at:at] = [{"name": "sleep"}, {"name": "wake"}]
                if rng.random() < 0.5:
                    post.insert(0, dict(op2))           # the application simply retries the call that failed
                s = scn(ids, c, pre + [op2] + post, tag="fault-op")
                s["_target"] = len(pre) + 1
                s["_ksample"] = (1.0 if iface in ("spi", "rec") else 0.25) if quick else 1.0
                out.append(s)
    # C: what a failed pixel stream leaves in a staging buffer: fill in colour C, a stream that fails, a SMALLER stream
    #    that succeeds, then a fill in colour C again (buffers larger than the whole panel, so that one load holds it all)
    for (model, w, h, ox, oy) in [("tiny565_4x3", 4, 3, 0, 0), ("tiny565_4x3", 3, 2, 1, 1), ("tiny666_3x2", 3, 2, 0, 0)]:
        for iface in (("spi",) if quick else ("spi", "p8")):
            rot, mir = rng.choice(ORIENTS)
            lw, lh = lsize(w, h, rot)
            C = rng.choice([0x0A0A, 0x1234, 0xFFFF])
            big = [{"name": "set_pixels", "win": [0, 0, lw - 1, lh - 1], "colors": list(range(0x4001, 0x4001 + lw * lh))},
                   {"name": "fill_contiguous", "rect": [0, 0, lw, lh], "colors": {"start": 0x5001, "len": lw * lh}},
                   {"name": "draw_iter", "px": [[i, 0, 0x6001 + i] for i in range(lw)]}]
            small = [{"name": "set_pixel", "x": 0, "y": 0, "c": 0x7001}, {"name": "draw_iter", "px": [[lw - 1, lh - 1, 0x7002]]}]
            again = [{"name": "clear", "c": C}, {"name": "fill_solid", "rect": [0, 0, lw, lh], "c": C}]
            for op in big:
                c = cfg(model, w, h, ox, oy, rot, mir, iface=iface, buf=rng.choice([64, 100, 256]), rst=True)
                pre = [INIT, rng.choice(again)]
                s = scn(ids, c, pre + [dict(op), rng.choice(small), rng.choice(again), {"name": "set_pixel", "x": lw - 1, "y": 0, "c": 0x7003}], tag="fault-op")
                s["_target"] = len(pre) + 1
                s["_ksample"] = 1.0
                out.append(s)
    return out


def fault_expand(ids, rng, base, nf):
    """all (or a seeded sample of) k in 1..nf for the target call of a base scenario"""
    out = []
    ks = list(range(1, nf + 1))
    frac = base.get("_ksample", 1.0)
    if frac < 1.0:
        keep = {1, nf}
        keep.update(k for k in ks if rng.random() < frac)
        ks = sorted(keep & set(ks))
    for k in ks:
        s = {kk: v for kk, v in base.items() if not kk.startswith("_")}
        s["id"] = ids.next()
        # SPI transactions fail either without delivering anything or after delivering half of their bytes
        s["faults"] = [{"call": base["_target"], "k": k, "effect": base["cfg"].get("iface") == "spi" and rng.random() < 0.35}]
        s["tag"] = base["tag"]
        out.append(s)
    return out


# ------------------------------------------------------------------------- colours through real displays (C05)

def colour_alphabet(colour, rng, n=24):
    bits = 16 if colour == "565" else 18
    vals = [0, (1 << bits) - 1] + [1 << i for i in range(bits)] + [((1 << bits) - 1) ^ (1 << i) for i in range(bits)]
    vals += [rng.randrange(1 << bits) for _ in range(n)]
    return vals


def f_colour_displays(ids, rng, models=None):
    out = []
    for name in (models or MODELS.keys()):
        W, H, col, ifs = MODELS[name]
        for iface in ifs:
            vals = colour_alphabet(col, rng)
            w, h = 8, 8
            c = cfg(name, w, h, rng.randrange(0, W - w + 1), rng.randrange(0, H - h + 1), rng.randrange(4), rng.random() < 0.5,
                    iface=iface, buf=rng.choice([3, 6, 7, 64]), bgr=rng.random() < 0.5, inv=rng.random() < 0.5)
            calls = [INIT]
            for i in range(0, len(vals), 64):
                calls.append({"name": "set_pixels", "win": [0, 0, 7, 7], "colors": vals[i:i + 64]})
            for v in vals[:12]:
                calls.append({"name": "fill_solid", "rect": [1, 1, 3, 2], "c": v})
                calls.append({"name": "draw_iter", "px": [[0, 0, v], [1, 0, v ^ 1], [5, 5, v]]})
            out.append(scn(ids, c, calls, tag="colour"))
    return out


# ------------------------------------------------------------------------- table requests (pure functions)

SETTERS = ([["color", b] for b in (False, True)] + [["orient", r, m] for (r, m) in ORIENTS]
           + [["refresh", v, h] for v in (0, 1) for h in (0, 1)])
STARTS = [[b, r, m, v, h] for b in (False, True) for (r, m) in ORIENTS for v in (0, 1) for h in (0, 1)]


def t_madctl(rng, seq3_sample=0.02):
    rows = []
    for v in (0, 1):
        for h in (0, 1):
            for ln in range(0, 4):
                for ops in itertools.product(("fv", "fh"), repeat=ln):
                    rows.append({"f": "refresh.flip", "in": [v, h, list(ops)]})
    for st in STARTS:
        rows.append({"f": "madctl.new", "in": st})
        rows.append({"f": "madctl.from_options", "in": st})
        for a in SETTERS:
            rows.append({"f": "madctl.seq", "in": [st, [a]]})
            for b in SETTERS:
                if rng.random() < 0.25 or seq3_sample >= 1.0:
                    rows.append({"f": "madctl.seq", "in": [st, [a, b]]})
                for c in SETTERS:
                    if rng.random() < seq3_sample:
                        rows.append({"f": "madctl.seq", "in": [st, [a, b, c]]})
    return rows


OPS15 = [["rot", 0], ["rot", 1], ["rot", 2], ["rot", 3], ["fh"], ["fv"]]


def t_orient(rng, maxlen=4, stride=1 << 8):
    rows = []
    for (r, m) in ORIENTS:
        for ln in range(0, maxlen + 1):
            for word in itertools.product(OPS15, repeat=ln):
                rows.append({"f": "orient.word", "in": [[r, m], [list(w) for w in word]]})
    for a in range(-720, 721):
        rows.append({"f": "rotation.try_from_degree", "in": [a]})
    for a in [I32MIN, I32MIN + 1, I32MAX, I32MAX - 1]:
        for d in range(0, 400):
            v = a + d if a < 0 else a - d
            rows.append({"f": "rotation.try_from_degree", "in": [v]})
    for _ in range(2000):
        rows.append({"f": "rotation.try_from_degree", "in": [rng.randrange(I32MIN, I32MAX + 1)]})
        rows.append({"f": "rotation.try_from_degree", "in": [90 * rng.randrange(I32MIN // 90 + 1, I32MAX // 90)]})
    for r in range(4):
        rows.append({"f": "rotation.degree", "in": [r]})
    rows.append({"f": "mock.display", "in": []})
    table = [(a // 90) if a % 90 == 0 else -1 for a in range(360)]
    rows.append({"f": "rotation.all_angles", "in": [table, stride, rng.randrange(stride)]})
    return rows


def u16_boundary():
    return [0, 1, 2, 127, 128, 255, 256, 257, 511, 512, 0x0102, 0x1234, 0x7FFF, 0x8000, 0x8001, 0xFF00, 0xFEFF, 0xFFFE, 0xFFFF]


def t_dcs(rng, nrandom=3000, all_u16=False):
    rows = []
    for n in ["SoftReset", "EnterSleepMode", "ExitSleepMode", "EnterPartialMode", "EnterNormalMode", "SetDisplayOff",
              "SetDisplayOn", "ExitIdleMode", "EnterIdleMode", "WriteMemoryStart"]:
        rows.append({"f": "dcs", "in": [n]})
    bv = u16_boundary()
    for n in ("SetColumnAddress", "SetPageAddress"):
        for a in bv:
            for b in bv:
                rows.append({"f": "dcs", "in": [n, a, b]})
        for _ in range(nrandom):
            rows.append({"f": "dcs", "in": [n, rng.randrange(65536), rng.randrange(65536)]})
        if all_u16:
            for v in range(0, 65536):
                rows.append({"f": "dcs", "in": [n, v, 0xA55A]})
                rows.append({"f": "dcs", "in": [n, 0x5AA5, v]})
    for a in bv:
        for b in bv[::2]:
            for c in bv[::3]:
                rows.append({"f": "dcs", "in": ["SetScrollArea", a, b, c]})
    for _ in range(nrandom):
        rows.append({"f": "dcs", "in": ["SetScrollArea", rng.randrange(65536), rng.randrange(65536), rng.randrange(65536)]})
    step = 1 if all_u16 else 37
    for v in sorted(set(list(range(0, 65536, step)) + bv)):
        rows.append({"f": "dcs", "in": ["SetScrollStart", v]})
    for m in ("off", "v", "hv"):
        rows.append({"f": "dcs", "in": ["SetTearingEffect", m]})
    for b in (False, True):
        rows.append({"f": "dcs", "in": ["SetInvertMode", b]})
    bpps = [3, 8, 12, 16, 18, 24]
    for a in bpps:
        rows.append({"f": "dcs", "in": ["SetPixelFormatAll", a]})
        for b in bpps:
            rows.append({"f": "dcs", "in": ["SetPixelFormat", a, b]})
            rows.append({"f": "pixelformat.as_u8", "in": [a, b]})
    for st in STARTS:
        rows.append({"f": "dcs", "in": ["SetAddressMode"] + st})
    rows.append({"f": "bpp.from_rgb_color", "in": []})
    for _ in range(300):
        ln = rng.randrange(0, 33)
        rows.append({"f": "dcs.write_raw", "in": [rng.randrange(256), [rng.randrange(256) for _ in range(ln)]]})
    return rows


def t_colours(rng, full666=False):
    rows = []
    for c0 in range(0, 65536, 256):
        rows.append({"f": "colour.565x8", "in": [c0, 256]})
        rows.append({"f": "colour.565x16", "in": [c0, 256]})
        rows.append({"f": "colour.565x8.rep", "in": [c0, 256]})
        rows.append({"f": "colour.565x16.rep", "in": [c0, 256]})
    if full666:
        starts = range(0, 262144, 256)
    else:
        # every value of each channel with the other two fixed at several levels, plus seeded blocks
        starts = sorted(set([0, 262144 - 256] + [rng.randrange(0, 1024) * 256 for _ in range(96)]))
    for c0 in starts:
        rows.append({"f": "colour.666x8", "in": [c0, 256]})
        rows.append({"f": "colour.666x8.rep", "in": [c0, 256]})
    if not full666:
        for r in range(64):
            for g in (0, 21, 42, 63):
                rows.append({"f": "colour.666x8", "in": [r * 4096 + g * 64, 64]})      # all b for this r,g
    return rows


def t_testimage(rng, maxsize=40, big=()):
    rows = []
    for ct in ("565", "666", "888"):
        for w in range(0, maxsize + 1):
            for h in range(0, maxsize + 1):
                rows.append({"f": "testimage", "in": [ct, w, h]})
        for (w, h) in big:
            rows.append({"f": "testimage", "in": [ct, w, h]})
        # draw targets whose bounding box does not start at the origin (a DrawTarget only has `Dimensions`)
        for (ox, oy) in [(5, 7), (-3, -4), (1, 0), (0, -1), (40, 40), (100000, -70000)]:
            for (w, h) in [(32, 32), (33, 40), (40, 33), (rng.randrange(32, maxsize + 1), rng.randrange(32, maxsize + 1))]:
                rows.append({"f": "testimage", "in": [ct, w, h, ox, oy]})
    return rows


def f_testimage_display(ids, rng, quick):
    out = []
    plats = [("tiny565_40x36", 40, 36, ["rec", "spi", "p8"]), ("tiny666_40x36", 40, 36, ["rec", "spi", "p8"])]
    if not quick:
        plats += [("st7789", 240, 320, ["rec"]), ("ili9341_666", 240, 320, ["rec"])]
    for (model, W, H, ifaces) in plats:
        for (rot, mir) in ORIENTS:
            for (w, h, ox, oy) in [(W, H, 0, 0), (min(W, 36), min(H, 33), W - min(W, 36), H - min(H, 33))]:
                for iface in ifaces:
                    if quick and iface != "rec" and (rot, mir) not in ((0, False), (1, True), (2, True)):
                        continue
                    # staging buffers that are / are not a whole number of pixels
                    c = cfg(model, w, h, ox, oy, rot, mir, iface=iface, buf=rng.choice([7, 64, 100, 512]))
                    calls = [INIT]
                    # the image over whatever was shown before: a screen cleared to one of the image's own colours
                    # (the driver / transport may still hold that colour staged), or the image itself
                    pre = rng.random()
                    if pre < 0.45:
                        calls.append({"name": "clear", "c": rng.choice([0xF800, 0x07E0, 0x001F, 0xFFFF, 0x0000] if "666" not in model
                                                                         else [0x3F000, 0x00FC0, 0x0003F, 0x3FFFF, 0])})
                    elif pre < 0.6:
                        calls.append({"name": "test_image"})
                    calls.append({"name": "test_image"})
                    if rng.random() < 0.5:
                        r2, m2 = rng.choice(ORIENTS)
                        calls += [{"name": "set_orientation", "rot": r2, "mir": m2}, {"name": "test_image"}]
                    out.append(scn(ids, c, calls, tag="testimage"))
    # systematically: the image over a screen cleared to each of its own colours, on the buffered transport
    for (model, W, H, cols) in [("tiny565_40x36", 40, 36, [0xF800, 0x07E0, 0x001F, 0xFFFF, 0x0000]),
                                ("tiny666_40x36", 40, 36, [0x3F000, 0x00FC0, 0x0003F, 0x3FFFF, 0])]:
        for col in cols:
            rot, mir = rng.choice(ORIENTS)
            c = cfg(model, W, H, 0, 0, rot, mir, iface="spi", buf=rng.choice([7, 64, 100, 512]))
            out.append(scn(ids, c, [INIT, {"name": "clear", "c": col}, {"name": "test_image"}], tag="testimage"))
    return out


# ------------------------------------------------------------------------- small-alphabet call sequences (state carried between calls)

def f_small_alphabet(ids, rng, n, ifaces=("spi",), sizes=((2, 2), (3, 2), (2, 3), (4, 3)), seq=(3, 9), tag="smallalpha", p666=0.15):
    """random call sequences over a deliberately tiny alphabet (two colours, a few rectangles), so that calls
    repeat colours, sizes and positions of earlier calls: finds state that survives from one call to the next
    (staging buffers, bus caches, cached address modes)"""
    out = []
    for _ in range(n):
        W, H = rng.choice(sizes)
        model = "tiny565_%dx%d" % (W, H)
        iface = rng.choice(ifaces)
        if (W, H) in ((2, 3), (3, 2)) and iface in ("spi", "p8", "rec") and rng.random() < p666 * 3:
            model = "tiny666_%dx%d" % (W, H)          # three-byte pixels
        w = rng.randrange(1, W + 1); h = rng.randrange(1, H + 1)
        ox = rng.randrange(0, W - w + 1); oy = rng.randrange(0, H - h + 1)
        rot, mir = rng.choice(ORIENTS)
        lw, lh = lsize(w, h, rot)
        A = rng.choice([0x0000, 0x00FF, 0x1234, 0xFFFF, 0x0101]); B = (A + 1) % 65536
        rects = [[0, 0, lw, lh], [0, 0, lw, 1], [0, 0, 1, lh], [lw - 1, lh - 1, 1, 1], [0, 0, max(lw - 1, 1), max(lh - 1, 1)]]
        c = cfg(model, w, h, ox, oy, rot, mir, iface=iface, buf=rng.choice([3, 4, 5, 6, 8, 64] if "666" in model else [2, 3, 4, 5, 6, 8, 64]))
        calls = [INIT]
        for _ in range(rng.randrange(*seq)):
            k = rng.randrange(8)
            col = rng.choice([A, A, B])
            if k == 0:
                calls.append({"name": "fill_solid", "rect": rng.choice(rects), "c": col})
            elif k == 1:
                calls.append({"name": "clear", "c": col})
            elif k == 2:
                r = rng.choice(rects)
                calls.append({"name": "fill_contiguous", "rect": r, "colors": {"start": col, "len": rng.choice([-1, r[2] * r[3]])}})
            elif k == 3:
                r = rng.choice(rects)
                n_ = r[2] * r[3]
                calls.append({"name": "set_pixels", "win": [r[0], r[1], r[0] + r[2] - 1, r[1] + r[3] - 1],
                              "colors": [rng.choice([A, B]) if i else col for i in range(n_)]})
            elif k == 4:
                m = rng.randrange(1, 5)
                x0 = rng.randrange(lw); y0 = rng.randrange(lh)
                calls.append({"name": "draw_iter", "px": [[min(x0 + i, lw - 1), y0, col if i == 0 else rng.choice([A, B])] for i in range(m)]})
            elif k == 5:
                calls.append({"name": "set_pixel", "x": rng.randrange(lw), "y": rng.randrange(lh), "c": col})
            elif k == 6:
                r2, m2 = rng.choice(ORIENTS)
                if lsize(w, h, r2) == (lw, lh):         # keep the rectangles valid
                    calls.append({"name": "set_orientation", "rot": r2, "mir": m2})
                    rot, mir = r2, m2
            else:
                # power state changes in between (drawing while asleep is allowed; the controller keeps its memory)
                calls.append({"name": rng.choice(["sleep", "wake", "wake"])})
        out.append(scn(ids, c, calls, tag=tag))
    return out


def f_nonfused(ids, rng, n=120, ifaces=("rec", "spi", "p8", "p16"), tag="nonfused", xport=True):
    """iterators that are not fused: after their first `None` they would yield further items ("resume").  The
    stream a call is given ends at the first `None` (what `for p in it { set_pixel(p) }` draws); the resumed items
    are distinguishable (other colours, other cells) so that any effect of them shows in the picture."""
    out = []
    for _ in range(n):
        W, H = rng.choice([(4, 3), (3, 3), (3, 2), (2, 3)])
        iface = rng.choice(ifaces)
        model = "tiny565_%dx%d" % (W, H)
        if (W, H) in ((2, 3), (3, 2)) and iface in ("spi", "p8", "rec") and rng.random() < 0.3:
            model = "tiny666_%dx%d" % (W, H)
        w = rng.randrange(1, W + 1); h = rng.randrange(1, H + 1)
        ox = rng.randrange(0, W - w + 1); oy = rng.randrange(0, H - h + 1)
        rot, mir = rng.choice(ORIENTS)
        lw, lh = lsize(w, h, rot)
        c = cfg(model, w, h, ox, oy, rot, mir, iface=iface, buf=rng.choice([3, 4, 5, 7, 9, 64] if "666" in model else [2, 3, 4, 5, 7, 64]))
        calls = [INIT, {"name": "clear", "c": 3}]
        col = 40
        for _ in range(rng.randrange(3, 8)):
            k = rng.randrange(4)
            if k == 0:
                # a run, the gap, then pixels that continue the run / start elsewhere
                x0 = rng.randrange(-1, lw); y0 = rng.randrange(0, lh)
                m = rng.randrange(0, 4)
                px = [[x0 + i, y0, col + i] for i in range(m)]
                x1, y1 = rng.choice([(x0 + m, y0), (rng.randrange(lw), rng.randrange(lh)), (0, min(y0 + 1, lh - 1))])
                more = [[x1 + i, y1, col + 20 + i] for i in range(rng.randrange(1, 4))]
                calls.append({"name": "draw_iter", "px": px, "resume": more})
            elif k == 1:
                sx = rng.randrange(lw); sy = rng.randrange(lh)
                ex = rng.randrange(sx, lw); ey = rng.randrange(sy, lh)
                area = (ex - sx + 1) * (ey - sy + 1)
                ln = rng.randrange(0, area + 1)
                calls.append({"name": "set_pixels", "win": [sx, sy, ex, ey], "colors": [col + i for i in range(ln)],
                              "resume": [col + 20 + i for i in range(rng.randrange(1, 5))]})
            elif k == 2:
                r = [rng.randrange(-1, lw), rng.randrange(-1, lh), rng.randrange(1, lw + 2), rng.randrange(1, lh + 2)]
                area = r[2] * r[3]
                calls.append({"name": "fill_contiguous", "rect": r,
                              "colors": {"start": col, "len": rng.randrange(0, area + 1), "resume": rng.randrange(1, 6)}})
            else:
                calls.append({"name": "set_pixel", "x": rng.randrange(lw), "y": rng.randrange(lh), "c": col})
            col += 64
        out.append(scn(ids, c, calls, tag=tag))
    if xport:
        for iface in [i for i in ifaces if i != "rec"]:
            wbits = 16 if iface == "p16" else 8
            for nn in (1, 2, 3):
                for buf in ([nn, nn + 1, 2 * nn, 3 * nn + 1, 64] if iface == "spi" else [0]):
                    cap = max(buf // nn, 1)
                    calls = [RAMWR]
                    for cnt in sorted({0, 1, cap - 1, cap, cap + 1, 2 * cap, 2 * cap + 1} - {-1}):
                        base = rng.randrange(200)
                        calls.append({"name": "xport.send_pixels", "n": nn,
                                      "px": [pix_words(rng, nn, wbits, "seq", base=base + i * nn) for i in range(cnt)],
                                      "resume": [pix_words(rng, nn, wbits, "seq", base=base + 100 + i * nn) for i in range(rng.randrange(1, cap + 2))]})
                        calls.append(RAMWR)
                    out.append(scn(ids, xcfg(iface, buf), calls, tag=tag + "-xport", budget=20000))
    return out


def f_reinit(ids, rng, n=100, ifaces=("spi", "p8", "p16", "rec"), fault_rate=0.3, models=None):
    """a display is used, then initialised again in the same scenario: either from scratch ("init": new interface,
    bus and pin objects over lines that still carry the levels the earlier traffic left - D/C high, data pins high
    after white pixels) or after Display::release() over the very same objects ("reinit": whatever the interface
    and the bus cached survives, also across a failed call).  The second initialisation has the obligations of the
    first one (reset first, model program, controller state) and drawing afterwards must land where it should."""
    out = []
    pool = models or [("tiny565_4x3", 4, 3), ("tiny565_3x3", 3, 3), ("st7789", 240, 320), ("ili9341_565", 240, 320), ("st7735s", 132, 162),
                      ("gc9a01", 240, 240), ("ili9486_565", 320, 480), ("st7796", 320, 480), ("rm67162", 240, 536), ("gc9107", 128, 160)]
    for _ in range(n):
        model, W, H = rng.choice(pool)
        ok = MODELS[model][3] if model in MODELS else ["spi", "p8", "p16", "rec"]
        cand = [i for i in ifaces if i in ok or i == "rec" and "spi" in ok]
        if not cand:
            continue
        iface = rng.choice(cand)
        w = rng.randrange(1, min(W, 6) + 1); h = rng.randrange(1, min(H, 6) + 1)
        ox = rng.randrange(0, W - w + 1); oy = rng.randrange(0, H - h + 1)
        rot, mir = rng.choice(ORIENTS)
        lw, lh = lsize(w, h, rot)
        c = cfg(model, w, h, ox, oy, rot, mir, iface=iface, buf=rng.choice([2, 3, 5, 64]) if MODELS.get(model, ("", 0, "565"))[2] != "666" else rng.choice([3, 4, 64]),
                rst=rng.random() < 0.5, bgr=rng.random() < 0.5, inv=rng.random() < 0.5)
        white = 0xFFFF
        calls = [INIT, {"name": "clear", "c": rng.choice([white, white, 0, 0x5555])}]
        faults = []
        for _ in range(rng.randrange(0, 4)):
            k = rng.randrange(6)
            if k == 0:
                calls.append({"name": rng.choice(["sleep", "wake"])})
            elif k == 1:
                r2, m2 = rng.choice(ORIENTS)
                calls.append({"name": "set_orientation", "rot": r2, "mir": m2})
                lw, lh = lsize(w, h, r2)
            elif k == 2:
                calls.append({"name": "set_pixel", "x": rng.randrange(lw), "y": rng.randrange(lh), "c": rng.choice([white, 0x00FF, 0xAD55])})
            elif k == 3:
                calls.append({"name": "fill_solid", "rect": [0, 0, lw, lh], "c": rng.choice([white, 0xF81F, 0x0808])})
            elif k == 4:
                calls.append({"name": "tearing", "mode": rng.choice(["off", "v", "hv"])})
            else:
                calls.append({"name": "draw_iter", "px": [[i, 0, 0xA000 + i] for i in range(lw)]})
            if rng.random() < fault_rate and iface != "rec":
                faults.append({"call": len(calls), "k": rng.randrange(1, 30), "effect": rng.random() < 0.5})
        calls.append({"name": rng.choice(["init", "reinit", "reinit"])})
        lw, lh = lsize(w, h, rot)
        col = 0x1200
        for (x, y) in {(0, 0), (lw - 1, 0), (0, lh - 1), (lw - 1, lh - 1)}:
            calls.append({"name": "set_pixel", "x": x, "y": y, "c": col}); col += 0x111
        calls.append({"name": "fill_solid", "rect": [0, 0, max(lw - 1, 1), lh], "c": 0x0AA0})
        if rng.random() < 0.4:
            calls.append({"name": rng.choice(["sleep", "wake"])})
            calls.append({"name": rng.choice(["init", "reinit"])})
            calls.append({"name": "clear", "c": 0x7BEF})
        s = scn(ids, c, calls, tag="reinit")
        if faults:
            s["faults"] = faults
        out.append(s)
    return out


def f_big_fills(ids, rng, n=2):
    """solid fills of more than 65535 pixels through a real Display on SPI with a small staging buffer: still one
    window set-up, and the burst in at most floor(b / usable) + 1 transactions (a fill handed to the transport in
    slices pays one short remainder transaction per slice)"""
    out = []
    for i in range(n):
        model, W, H = rng.choice([("st7789", 240, 320), ("ili9341_565", 240, 320), ("st7796", 320, 480)]) if i else ("st7789", 240, 320)
        buf = 14 if i == 0 else rng.choice([6, 10, 14, 18, 22, 26, 30, 34])
        rot, mir = rng.choice(ORIENTS)
        c = cfg(model, W, H, 0, 0, rot, mir, iface="spi", buf=buf, rst=False)
        lw, lh = lsize(W, H, rot)
        call = {"name": "clear", "c": rng.choice([0x1234, 0xF800])} if i % 2 == 0 else \
               {"name": "fill_solid", "rect": [0, 0, lw, lh - rng.randrange(0, 3)], "c": 0x07E0}
        out.append(scn(ids, c, [INIT, call], tag="big-fill", budget=2000000))
    return out


def f_huge_fill(ids, rng, ifaces=("p8", "p16", "spi")):
    """clear() of a 65535 x 65535 panel through a real Display: 4 294 836 225 pixels, more than 2^31 - the count the
    transport is given times the words per pixel does not fit a u32 (defect 5 through the public API)"""
    out = []
    for iface in ifaces:
        for col in (0x0808, 0xFFFF, 0x1234):        # both bytes equal (strobe-only path on the 8-bit bus) / different
            rot, mir = rng.choice(ORIENTS)
            c = cfg("tiny565_65535x65535", rot=rot, mir=mir, iface=iface, buf=rng.choice([2, 5, 64]), rst=rng.random() < 0.5)
            out.append(scn(ids, c, [INIT, {"name": "clear", "c": col}], tag="huge-fill", budget=3000))
    return out


def f_orient_asleep(ids, rng, n=100, ifaces=("rec", "spi", "p8")):
    """the orientation is changed while the panel sleeps - after tearing-effect, scrolling or idle set-up that a driver might
    want to restore on wake-up - then the panel is woken and drawn on: what counts is the last orientation set"""
    out = []
    for _ in range(n):
        W, H = rng.choice([(4, 3), (3, 3), (2, 3)])
        w = rng.randrange(1, W + 1); h = rng.randrange(1, H + 1)
        ox = rng.randrange(0, W - w + 1); oy = rng.randrange(0, H - h + 1)
        rot, mir = rng.choice(ORIENTS)
        c = cfg("tiny565_%dx%d" % (W, H), w, h, ox, oy, rot, mir, iface=rng.choice(ifaces), buf=rng.choice([2, 3, 64]), rst=rng.random() < 0.5)
        calls = [INIT, {"name": "clear", "c": 0x0101}]
        pre = [{"name": "tearing", "mode": rng.choice(["v", "hv", "off"])}, {"name": "scroll_region", "top": 1, "bottom": 1 if H > 2 else 0},
               {"name": "scroll_offset", "v": rng.randrange(H)}, {"name": "set_pixel", "x": 0, "y": 0, "c": 0x2222}]
        rng.shuffle(pre)
        calls += pre[:rng.randrange(0, 4)]
        calls.append({"name": "sleep"})
        for _ in range(rng.randrange(1, 3)):
            rot, mir = rng.choice(ORIENTS)
            calls.append({"name": "set_orientation", "rot": rot, "mir": mir})
            if rng.random() < 0.3:
                calls.append({"name": "tearing", "mode": rng.choice(["v", "hv", "off"])})
        calls.append({"name": "wake"})
        lw, lh = lsize(w, h, rot)
        col = 0x3000
        for (x, y) in sorted({(0, 0), (lw - 1, 0), (0, lh - 1), (lw - 1, lh - 1)}):
            calls.append({"name": "set_pixel", "x": x, "y": y, "c": col}); col += 0x0111
        calls.append({"name": "fill_solid", "rect": [-1, 0, lw, lh + 1], "c": 0x4444})
        out.append(scn(ids, c, calls, tag="reorient"))
    return out


def f_xport_faults(ids, rng, ifaces=("p8", "p16"), n=200):
    """interface-level calls on a real transport with one failing low-level operation somewhere inside:
    what reached the bus before it must be a prefix of what was to be sent, and nothing may follow"""
    out = []
    for _ in range(n):
        iface = rng.choice(ifaces)
        wbits = 16 if iface == "p16" else 8
        nn = rng.choice([1, 2, 3])
        alpha = walking(wbits)
        calls = [RAMWR]
        kind = rng.random()
        if kind < 0.5:
            px = [[rng.choice(alpha) for _ in range(nn)] for _ in range(rng.randrange(1, 5))]
            calls.append({"name": "xport.send_pixels", "n": nn, "px": px})
        elif kind < 0.8:
            v = rng.choice(alpha)
            pixel = [v] * nn if rng.random() < 0.5 else [rng.choice(alpha) for _ in range(nn)]
            calls.append({"name": "xport.send_repeated_pixel", "n": nn, "pixel": pixel, "count": split16(rng.randrange(1, 5))})
        else:
            calls.append({"name": "xport.send_command", "op": rng.choice([0x2A, 0x36, 0x2C]), "params": [rng.choice(walking(8)) for _ in range(rng.randrange(0, 4))]})
        # a follow-up call after the failure: the transport must still work
        calls.append(RAMWR)
        calls.append({"name": "xport.send_pixels", "n": 1, "px": [[rng.choice(alpha)], [rng.choice(alpha)]]})
        # (the staging buffer must hold at least one pixel: a documented precondition of SpiInterface)
        s = scn(ids, xcfg(iface, buf=rng.choice([3, 4, 6, 7, 64])), calls, tag="xport-fault")
        s["faults"] = [{"call": 2, "k": rng.randrange(1, 40), "effect": False}]
        out.append(s)
    return out


def f_dcs_over_transports(ids, rng, n=200):
    """command-shaped driver calls (scroll region / offset, tearing effect, orientation, raw vendor commands with
    0..16 parameter bytes) on the real transports with small SPI buffers: write_command / write_raw must put exactly
    the opcode and the parameter bytes on the wire whatever the transport does with them"""
    out = []
    names = list(MODELS.keys())
    for _ in range(n):
        name = rng.choice(names)
        W, H, col, ifs = MODELS[name]
        iface = rng.choice(ifs + ["spi_ref"] if "spi" in ifs else ifs)
        c = cfg(name, 4, 3, rng.randrange(0, W - 4), rng.randrange(0, H - 3), rng.randrange(4), rng.random() < 0.5,
                iface=iface, buf=rng.choice([3, 4, 5, 6, 7, 8, 9, 12, 16, 64]), bgr=rng.random() < 0.5, refv=rng.randrange(2), refh=rng.randrange(2))
        calls = [INIT]
        for _ in range(rng.randrange(3, 10)):
            k = rng.randrange(5)
            if k == 0:
                calls.append({"name": "scroll_region", "top": rng.choice([0, 1, 255, 256, rng.randrange(H)]), "bottom": rng.choice([0, 1, 255, 256, rng.randrange(H)])})
            elif k == 1:
                calls.append({"name": "scroll_offset", "v": rng.choice([0, 1, 255, 256, 0x1234, 65535, rng.randrange(65536)])})
            elif k == 2:
                calls.append({"name": "tearing", "mode": rng.choice(["off", "v", "hv"])})
            elif k == 3:
                r2, m2 = rng.choice(ORIENTS)
                calls.append({"name": "set_orientation", "rot": r2, "mir": m2})
            else:
                ln = rng.choice([0, 1, 2, 3, 4, 5, 6, 7, 8, 9, 12, 15, 16])
                calls.append({"name": "raw", "op": rng.choice([0x51, 0x53, 0xB1, 0xC5, 0xE0, 0xE1, 0xF0]), "params": [(7 * ln + 13 * i + 1) % 256 for i in range(ln)]})
        out.append(scn(ids, c, calls, tag="dcs-transport"))
    return out


def f_fault_retry(ids, rng, n, flavour="oob", ifaces=("spi", "rec", "p8"), tag="fault-retry"):
    """a call fails at some low-level operation, the application retries the very same call, then goes on drawing:
    whatever the failed attempt left behind (cached windows, shadow registers, staged bytes) must not make the retry or
    the later drawing go wrong.  flavour "oob": out-of-range drawing afterwards (C02); "contig": contiguous fills (C04)"""
    out = []
    for _ in range(n):
        W, H = rng.choice([(4, 3), (3, 3), (2, 3), (3, 2)])
        w = rng.randrange(1, W + 1); h = rng.randrange(1, H + 1)
        ox = rng.randrange(0, W - w + 1); oy = rng.randrange(0, H - h + 1)
        rot, mir = rng.choice(ORIENTS)
        iface = rng.choice(ifaces)
        c = cfg("tiny565_%dx%d" % (W, H), w, h, ox, oy, rot, mir, iface=iface, buf=rng.choice([2, 3, 4, 64]))
        lw, lh = lsize(w, h, rot)
        lw0, lh0 = lw, lh                             # logical size while the failed call has not been retried
        calls = [INIT, {"name": "clear", "c": 0x0A0A}]
        if rng.random() < 0.5:
            r2, m2 = rng.choice(ORIENTS)
            op = {"name": "set_orientation", "rot": r2, "mir": m2}
            lw, lh = lsize(w, h, r2)
        elif flavour == "contig":
            op = {"name": "fill_contiguous", "rect": [rng.randrange(-1, lw), rng.randrange(-1, lh), rng.randrange(1, lw + 2), rng.randrange(1, lh + 2)],
                  "colors": {"start": 100, "len": -1}}
        elif flavour == "colour":
            # colours whose bytes differ in many bits from what the bus carried before
            op = rng.choice([{"name": "set_pixel", "x": rng.randrange(lw), "y": rng.randrange(lh), "c": rng.choice([0xF800, 0xAD55, 0x52AA, 0xFFFF])},
                             {"name": "fill_solid", "rect": [0, 0, lw, lh], "c": rng.choice([0xF81F, 0x07E0, 0xA5A5])}])
        else:
            op = {"name": "draw_iter", "px": [[rng.randrange(-1, lw + 1), rng.randrange(-1, lh + 1), 40 + i] for i in range(4)]}
        calls.append(op)
        fcall = len(calls)
        if rng.random() < 0.4:
            # the application goes on drawing before it retries (what the failed attempt cached meets a later refill)
            calls.append({"name": "set_pixel", "x": rng.randrange(lw0), "y": rng.randrange(lh0), "c": 0x0B0B})
            if rng.random() < 0.5:
                calls.append({"name": "fill_solid", "rect": [0, 0, lw0, lh0], "c": 0x0C0C})
        calls.append(dict(op))                       # the retry
        col = 200
        for _ in range(4):
            if flavour == "contig":
                r = [rng.randrange(-1, lw), rng.randrange(-1, lh), rng.randrange(1, lw + 2), rng.randrange(1, lh + 2)]
                calls.append({"name": "fill_contiguous", "rect": r, "colors": {"start": col, "len": rng.choice([-1, r[2] * r[3], rng.randrange(0, r[2] * r[3] + 1)])}})
                col += 50
            elif flavour == "colour":
                cc = rng.choice([0x001F, 0x07E0, 0xF800, 0x0000, 0xFFFF, 0x8410, 1 << rng.randrange(16)])
                calls.append(rng.choice([{"name": "set_pixel", "x": rng.randrange(lw), "y": rng.randrange(lh), "c": cc},
                                         {"name": "clear", "c": cc},
                                         {"name": "draw_iter", "px": [[i % lw, i // lw, (cc + i * 0x0841) % 65536] for i in range(min(lw * lh, 3))]}]))
            else:
                k = rng.randrange(3)
                if k == 0:
                    calls.append({"name": "draw_iter", "px": [[rng.choice([-1, 0, lw - 1, lw, 65536]), rng.choice([-1, 0, lh - 1, lh]), col + i] for i in range(4)]})
                elif k == 1:
                    calls.append({"name": "fill_solid", "rect": [rng.randrange(-1, lw), rng.randrange(-1, lh), lw + 1, lh + 1], "c": col})
                else:
                    calls.append({"name": "clear", "c": col})
                col += 7
        s = scn(ids, c, calls, tag=tag)
        s["faults"] = [{"call": fcall, "k": rng.randrange(1, 40 if flavour == "colour" else 14), "effect": flavour == "colour" and rng.random() < 0.5}]
        out.append(s)
    return out
