"""Scenario generators (programs for the real code).  Deterministic in the seed.

Families follow DESIGN.md section 7: F-tiny (exhaustive small configurations), F-real (built-in models),
F-huge (extreme framebuffers / coordinates), F-long (long pixel streams).  Generators only produce
inputs; what the outputs must be is decided by the TLA+ trace specification.
"""
import itertools
import random

ORIENTS = [(r, m) for r in range(4) for m in (False, True)]
TINY_SIZES = [(1, 1), (1, 2), (1, 3), (2, 1), (2, 2), (2, 3), (3, 1), (3, 2), (3, 3), (4, 3)]

# built-in models: name -> (W, H, colour, supported ifaces for a Display)
MODELS = {
    "gc9107": (128, 160, "565", ["spi", "p8"]),
    "gc9a01": (240, 240, "565", ["spi", "p8", "p16"]),
    "ili9341_565": (240, 320, "565", ["spi", "p8", "p16"]),
    "ili9341_666": (240, 320, "666", ["spi", "p8"]),
    "ili9342c_565": (320, 240, "565", ["spi", "p8", "p16"]),
    "ili9342c_666": (320, 240, "666", ["spi", "p8"]),
    "ili9486_565": (320, 480, "565", ["p8", "p16"]),
    "ili9486_666": (320, 480, "666", ["spi", "p8"]),
    "ili9488_565": (320, 480, "565", ["spi", "p8", "p16"]),
    "ili9488_666": (320, 480, "666", ["spi", "p8"]),
    "rm67162": (240, 536, "565", ["spi", "p8"]),
    "st7735s": (132, 162, "565", ["spi", "p8", "p16"]),
    "st7789": (240, 320, "565", ["spi", "p8", "p16"]),
    "st7796": (320, 480, "565", ["spi", "p8", "p16"]),
}
REC_OF = {"spi": "rec", "p8": "rec_p8", "p16": "rec_p16"}


def windows(W, H):
    for w in range(1, W + 1):
        for h in range(1, H + 1):
            for ox in range(0, W - w + 1):
                for oy in range(0, H - h + 1):
                    yield (w, h, ox, oy)


def cfg(model, w=None, h=None, ox=None, oy=None, rot=0, mir=False, iface="rec", buf=64, rst=True,
        bgr=False, inv=False, refv=0, refh=0):
    c = {"model": model, "rot": rot, "mir": mir, "iface": iface, "buf": buf, "rst": rst,
         "bgr": bgr, "inv": inv, "refv": refv, "refh": refh}
    if w is not None:
        c.update({"w": w, "h": h, "ox": ox if ox is not None else 0, "oy": oy if oy is not None else 0})
    return c


def lsize(w, h, rot):
    return (w, h) if rot in (0, 2) else (h, w)


class Ids:
    def __init__(self, start=1):
        self.n = start - 1

    def next(self):
        self.n += 1
        return self.n


def scn(ids, c, calls, tag="", fault=None, budget=None):
    s = {"id": ids.next(), "cfg": c, "calls": calls, "tag": tag}
    if fault:
        s["fault"] = fault
    if budget:
        s["budget"] = budget
    return s


INIT = {"name": "init"}

# ------------------------------------------------------------------------- program pieces


def prog_every_cell(lw, lh, c0=1):
    """set_pixel on every logical cell, distinct colours"""
    calls = []
    c = c0
    for y in range(lh):
        for x in range(lw):
            calls.append({"name": "set_pixel", "x": x, "y": y, "c": c})
            c += 1
    return calls


def all_rects(lw, lh, lo=-1, extra=1):
    """all rectangles with corner in lo..lw+extra and sizes 0..lw+extra+1"""
    for x in range(lo, lw + extra + 1):
        for y in range(lo, lh + extra + 1):
            for w in range(0, lw + extra + 2):
                for h in range(0, lh + extra + 2):
                    yield [x, y, w, h]


def inbounds_rects(lw, lh):
    for x in range(0, lw):
        for y in range(0, lh):
            for w in range(0, lw - x + 1):
                for h in range(0, lh - y + 1):
                    yield [x, y, w, h]


def rect_inb(r, lw, lh):
    return r[2] == 0 or r[3] == 0 or (r[0] >= 0 and r[1] >= 0 and r[0] + r[2] <= lw and r[1] + r[3] <= lh)


def tiny_models(sizes=TINY_SIZES):
    for (W, H) in sizes:
        yield "tiny565_%dx%d" % (W, H), W, H


# ------------------------------------------------------------------------- F-tiny placement


def f_tiny_placement(ids, rng, ifaces=("rec",), sizes=TINY_SIZES, sample=1.0, oob=False, batch_streams=True,
                     tag="tiny"):
    """For every tiny framebuffer, window and orientation: a program touching every cell through every
    drawing entry point.  With oob=True the DrawTarget calls also receive out-of-range arguments."""
    out = []
    for model, W, H in tiny_models(sizes):
        for (w, h, ox, oy) in windows(W, H):
            for (rot, mir) in ORIENTS:
                for iface in ifaces:
                    if sample < 1.0 and rng.random() > sample:
                        continue
                    lw, lh = lsize(w, h, rot)
                    buf = rng.choice([2, 3, 4, 5, 7, 64])
                    c = cfg(model, w, h, ox, oy, rot, mir, iface=iface, buf=buf, rst=rng.random() < 0.8)
                    calls = [INIT]
                    if not oob:
                        calls += prog_every_cell(lw, lh)
                        # raw window writes
                        sx = rng.randrange(lw); ex = rng.randrange(sx, lw)
                        sy = rng.randrange(lh); ey = rng.randrange(sy, lh)
                        n = (ex - sx + 1) * (ey - sy + 1)
                        calls.append({"name": "set_pixels", "win": [sx, sy, ex, ey],
                                      "colors": [100 + i for i in range(rng.randrange(0, n + 1))]})
                        calls.append({"name": "set_pixels", "win": [0, 0, lw - 1, lh - 1],
                                      "colors": [200 + i for i in range(lw * lh)]})
                        rects = list(inbounds_rects(lw, lh))
                    else:
                        rects = [r for r in all_rects(lw, lh) if not rect_inb(r, lw, lh)]
                    rng.shuffle(rects)
                    col = 300
                    for r in rects[:6]:
                        calls.append({"name": "fill_solid", "rect": r, "c": col}); col += 1
                    for r in rects[6:12]:
                        area = r[2] * r[3]
                        ln = rng.choice([0, 1, max(area - 1, 0), area, area + 3, -1])
                        calls.append({"name": "fill_contiguous", "rect": r, "colors": {"start": col, "len": ln}})
                        col += 40
                    # pixel streams
                    lo, hi = (0, 0) if not oob else (-2, 2)
                    for _ in range(4):
                        n = rng.randrange(0, 8)
                        px = []
                        for i in range(n):
                            if px and rng.random() < 0.6:      # continue the run
                                x, y = px[-1][0] + 1, px[-1][1]
                                if not oob and x >= lw:
                                    x, y = rng.randrange(lw), rng.randrange(lh)
                            else:
                                x, y = rng.randrange(lo, lw + hi), rng.randrange(lo, lh + hi)
                            px.append([x, y, col]); col += 1
                        calls.append({"name": "draw_iter", "px": px})
                    calls.append({"name": "clear", "c": col})
                    out.append(scn(ids, c, calls, tag=tag))
    return out
