"""Scenario generators (programs for the real code).  Deterministic in the seed.

Families follow DESIGN.md section 7: F-tiny (exhaustive small configurations), F-real (built-in models),
F-huge (extreme framebuffers / coordinates), F-long (long pixel streams).  Generators only produce
inputs; what the outputs must be is decided by the TLA+ trace specification.
"""
import itertools
import random

ORIENTS = [(r, m) for r in range(4) for m in (False, True)]
TINY_SIZES = [(1, 1), (1, 2), (1, 3), (2, 1), (2, 2), (2, 3), (3, 1), (3, 2), (3, 3), (4, 3)]

# built-in models: name -> (W, H, colour, supported ifaces for a Display)
MODELS = {
    "gc9107": (128, 160, "565", ["spi", "p8"]),
    "gc9a01": (240, 240, "565", ["spi", "p8", "p16"]),
    "ili9341_565": (240, 320, "565", ["spi", "p8", "p16"]),
    "ili9341_666": (240, 320, "666", ["spi", "p8"]),
    "ili9342c_565": (320, 240, "565", ["spi", "p8", "p16"]),
    "ili9342c_666": (320, 240, "666", ["spi", "p8"]),
    "ili9486_565": (320, 480, "565", ["p8", "p16"]),
    "ili9486_666": (320, 480, "666", ["spi", "p8"]),
    "ili9488_565": (320, 480, "565", ["spi", "p8", "p16"]),
    "ili9488_666": (320, 480, "666", ["spi", "p8"]),
    "rm67162": (240, 536, "565", ["spi", "p8"]),
    "st7735s": (132, 162, "565", ["spi", "p8", "p16"]),
    "st7789": (240, 320, "565", ["spi", "p8", "p16"]),
    "st7796": (320, 480, "565", ["spi", "p8", "p16"]),
}
REC_OF = {"spi": "rec", "p8": "rec_p8", "p16": "rec_p16"}


def windows(W, H):
    for w in range(1, W + 1):
        for h in range(1, H + 1):
            for ox in range(0, W - w + 1):
                for oy in range(0, H - h + 1):
                    yield (w, h, ox, oy)


def cfg(model, w=None, h=None, ox=None, oy=None, rot=0, mir=False, iface="rec", buf=64, rst=True,
        bgr=False, inv=False, refv=0, refh=0):
    c = {"model": model, "rot": rot, "mir": mir, "iface": iface, "buf": buf, "rst": rst,
         "bgr": bgr, "inv": inv, "refv": refv, "refh": refh}
    if w is not None:
        c.update({"w": w, "h": h, "ox": ox if ox is not None else 0, "oy": oy if oy is not None else 0})
    return c


def lsize(w, h, rot):
    return (w, h) if rot in (0, 2) else (h, w)


class Ids:
    def __init__(self, start=1):
        self.n = start - 1

    def next(self):
        self.n += 1
        return self.n


def scn(ids, c, calls, tag="", fault=None, budget=None):
    s = {"id": ids.next(), "cfg": c, "calls": calls, "tag": tag}
    if fault:
        s["fault"] = fault
    if budget:
        s["budget"] = budget
    return s


INIT = {"name": "init"}

# ------------------------------------------------------------------------- program pieces


def prog_every_cell(lw, lh, c0=1):
    """set_pixel on every logical cell, distinct colours"""
    calls = []
    c = c0
    for y in range(lh):
        for x in range(lw):
            calls.append({"name": "set_pixel", "x": x, "y": y, "c": c})
            c += 1
    return calls


def all_rects(lw, lh, lo=-1, extra=1):
    """all rectangles with corner in lo..lw+extra and sizes 0..lw+extra+1"""
    for x in range(lo, lw + extra + 1):
        for y in range(lo, lh + extra + 1):
            for w in range(0, lw + extra + 2):
                for h in range(0, lh + extra + 2):
                    yield [x, y, w, h]


def inbounds_rects(lw, lh):
    for x in range(0, lw):
        for y in range(0, lh):
            for w in range(0, lw - x + 1):
                for h in range(0, lh - y + 1):
                    yield [x, y, w, h]


def rect_inb(r, lw, lh):
    return r[2] == 0 or r[3] == 0 or (r[0] >= 0 and r[1] >= 0 and r[0] + r[2] <= lw and r[1] + r[3] <= lh)


def tiny_models(sizes=TINY_SIZES):
    for (W, H) in sizes:
        yield "tiny565_%dx%d" % (W, H), W, H


# ------------------------------------------------------------------------- F-tiny placement


def f_tiny_placement(ids, rng, ifaces=("rec",), sizes=TINY_SIZES, sample=1.0, oob=False, batch_streams=True,
                     tag="tiny"):
    """For every tiny framebuffer, window and orientation: a program touching every cell through every
    drawing entry point.  With oob=True the DrawTarget calls also receive out-of-range arguments."""
    out = []
    for model, W, H in tiny_models(sizes):
        for (w, h, ox, oy) in windows(W, H):
            for (rot, mir) in ORIENTS:
                for iface in ifaces:
                    if sample < 1.0 and rng.random() > sample:
                        continue
                    lw, lh = lsize(w, h, rot)
                    buf = rng.choice([2, 3, 4, 5, 7, 64])
                    c = cfg(model, w, h, ox, oy, rot, mir, iface=iface, buf=buf, rst=rng.random() < 0.8)
                    calls = [INIT]
                    if not oob:
                        calls += prog_every_cell(lw, lh)
                        # raw window writes
                        sx = rng.randrange(lw); ex = rng.randrange(sx, lw)
                        sy = rng.randrange(lh); ey = rng.randrange(sy, lh)
                        n = (ex - sx + 1) * (ey - sy + 1)
                        calls.append({"name": "set_pixels", "win": [sx, sy, ex, ey],
                                      "colors": [100 + i for i in range(rng.randrange(0, n + 1))]})
                        calls.append({"name": "set_pixels", "win": [0, 0, lw - 1, lh - 1],
                                      "colors": [200 + i for i in range(lw * lh)]})
                        rects = list(inbounds_rects(lw, lh))
                    else:
                        rects = [r for r in all_rects(lw, lh) if not rect_inb(r, lw, lh)]
                    rng.shuffle(rects)
                    col = 300
                    for r in rects[:6]:
                        calls.append({"name": "fill_solid", "rect": r, "c": col}); col += 1
                    for r in rects[6:12]:
                        area = r[2] * r[3]
                        ln = rng.choice([0, 1, max(area - 1, 0), area, area + 3, -1])
                        calls.append({"name": "fill_contiguous", "rect": r, "colors": {"start": col, "len": ln}})
                        col += 40
                    # pixel streams
                    lo, hi = (0, 0) if not oob else (-2, 2)
                    for _ in range(4):
                        n = rng.randrange(0, 8)
                        px = []
                        for i in range(n):
                            if px and rng.random() < 0.6:      # continue the run
                                x, y = px[-1][0] + 1, px[-1][1]
                                if not oob and x >= lw:
                                    x, y = rng.randrange(lw), rng.randrange(lh)
                            else:
                                x, y = rng.randrange(lo, lw + hi), rng.randrange(lo, lh + hi)
                            px.append([x, y, col]); col += 1
                        calls.append({"name": "draw_iter", "px": px})
                    calls.append({"name": "clear", "c": col})
                    out.append(scn(ids, c, calls, tag=tag))
    return out


# ------------------------------------------------------------------------- boundary coordinates (F-huge style)

I32MIN, I32MAX = -2147483648, 2147483647


def boundary_coords(lw):
    s = {I32MIN, -65537, -65536, -1, 0, 1, lw - 1, lw, lw + 1, 255, 256, 65534, 65535, 65536, 65536 + max(lw - 1, 0),
         65536 + 1, I32MAX}
    return sorted(s)


def f_oob_streams(ids, rng, models, n_per_cfg=6, ifaces=("rec",), tag="oob-stream", stream_len=(1, 7)):
    """draw_iter streams mixing in-bounds pixels with boundary-value coordinates, in every position"""
    out = []
    for (model, W, H, wins) in models:
        for (w, h, ox, oy) in wins:
            for (rot, mir) in ORIENTS:
                lw, lh = lsize(w, h, rot)
                bx, by = boundary_coords(lw), boundary_coords(lh)
                for iface in ifaces:
                    c = cfg(model, w, h, ox, oy, rot, mir, iface=iface, buf=rng.choice([2, 5, 64]))
                    calls = [INIT, {"name": "clear", "c": 9}]
                    col = 1000
                    for _ in range(n_per_cfg):
                        n = rng.randrange(*stream_len)
                        px = []
                        for i in range(n):
                            r = rng.random()
                            if r < 0.45:
                                x, y = rng.randrange(lw), rng.randrange(lh)
                            elif r < 0.6 and px:
                                x, y = px[-1][0] + 1, px[-1][1]
                            elif r < 0.8:
                                x, y = rng.choice(bx), rng.randrange(lh)
                            elif r < 0.9:
                                x, y = rng.randrange(lw), rng.choice(by)
                            else:
                                x, y = rng.choice(bx), rng.choice(by)
                            if x > I32MAX:
                                x = I32MAX
                            px.append([x, y, col]); col += 1
                        calls.append({"name": "draw_iter", "px": px})
                    out.append(scn(ids, c, calls, tag=tag))
    return out


def valid_rect(x, y, w, h):
    # embedded-graphics computes top_left + size in i32 (Rectangle::bottom_right): both sums must fit
    return x + w <= I32MAX and y + h <= I32MAX and w < 2 ** 31 and h < 2 ** 31


def f_oob_rects(ids, rng, models, n_per_cfg=10, ifaces=("rec",), tag="oob-rect"):
    """fill_solid / fill_contiguous with boundary-value corners and sizes (valid embedded-graphics rectangles only)"""
    out = []
    for (model, W, H, wins) in models:
        for (w, h, ox, oy) in wins:
            for (rot, mir) in ORIENTS:
                lw, lh = lsize(w, h, rot)
                xs = [I32MIN, -65536, -lw - 1, -lw, -2, -1, 0, 1, lw - 1, lw, lw + 1, 65535, 65536, I32MAX]
                ys = [I32MIN, -65536, -lh - 1, -lh, -2, -1, 0, 1, lh - 1, lh, lh + 1, 65535, 65536, I32MAX]
                ws = [0, 1, 2, lw - 1, lw, lw + 1, 2 * lw + 1, 65535, 65536, 65537, 2 ** 31 - 1]
                hs = [0, 1, 2, lh - 1, lh, lh + 1, 2 * lh + 1, 65535, 65536, 65537, 2 ** 31 - 1]
                for iface in ifaces:
                    c = cfg(model, w, h, ox, oy, rot, mir, iface=iface, buf=rng.choice([3, 4, 64]))
                    calls = [INIT, {"name": "clear", "c": 7}]
                    col = 2000
                    k = 0
                    tries = 0
                    while k < n_per_cfg and tries < 200:
                        tries += 1
                        x, y, rw, rh = rng.choice(xs), rng.choice(ys), max(rng.choice(ws), 0), max(rng.choice(hs), 0)
                        if not valid_rect(x, y, rw, rh):
                            continue
                        # keep the number of points and the work bounded: the visible part is small on these models,
                        # the clipped-away part costs only iterator skips
                        if rw * rh >= 2 ** 31:
                            continue
                        k += 1
                        if rng.random() < 0.5:
                            calls.append({"name": "fill_solid", "rect": [x, y, rw, rh], "c": col}); col += 1
                        else:
                            area = rw * rh
                            ln = rng.choice([0, 1, 5, area, area + 3, -1])
                            if ln > 2 ** 31 - 2:
                                ln = -1
                            calls.append({"name": "fill_contiguous", "rect": [x, y, rw, rh],
                                          "colors": {"start": col, "len": ln}})
                            col += 97
                    out.append(scn(ids, c, calls, tag=tag))
    return out


def tiny_model_list(sizes, rng=None, max_windows=None):
    res = []
    for (W, H) in sizes:
        wins = list(windows(W, H))
        if rng is not None and max_windows is not None and len(wins) > max_windows:
            wins = rng.sample(wins, max_windows)
        res.append(("tiny565_%dx%d" % (W, H), W, H, wins))
    return res


def real_model_list(rng, names=None, n_windows=2, full=False, maxside=48):
    """built-in models with panel windows anywhere in the framebuffer; full=True adds the full-size window
    (a 76 800-cell picture makes every validated call cost ~0.1 s, so full size is for the thorough tier)"""
    res = []
    for name in (names or MODELS.keys()):
        W, H, col, ifs = MODELS[name]
        wins = [(W, H, 0, 0)] if full else []
        for _ in range(n_windows - (1 if full else 0)):
            w = rng.randrange(1, min(W, maxside) + 1); h = rng.randrange(1, min(H, maxside) + 1)
            wins.append((w, h, rng.choice([0, W - w, rng.randrange(0, W - w + 1)]), rng.choice([0, H - h, rng.randrange(0, H - h + 1)])))
        res.append((name, W, H, wins))
    return res


# ------------------------------------------------------------------------- F-long: long pixel streams (batching)

def long_stream(rng, lw, lh, oob=False, maxlen=400):
    """structured random stream: runs around the capacities, stacked equal rows, shape changes, repeats, reversals"""
    px = []
    col = [1]

    def emit(x, y):
        px.append([x, y, col[0] % 65536]); col[0] += 1

    def run_(x, y, n, step=1):
        for i in range(n):
            emit(x + i * step, y)

    while len(px) < maxlen:
        kind = rng.choice(["run", "run", "stack", "stack", "rev", "dup", "scatter", "col", "gap"])
        if kind == "run":
            n = rng.choice([1, 2, 3, 49, 50, 51, 99, 100, 101, 150]); n = min(n, lw)
            x = rng.randrange(0, lw - n + 1); y = rng.randrange(lh)
            run_(x, y, n)
        elif kind == "stack":
            n, rows = rng.choice([(25, 4), (50, 2), (10, 10), (10, 11), (33, 3), (34, 3), (20, 5), (20, 6), (1, 100), (1, 101), (2, 50), (2, 51), (7, 3)])
            n = min(n, lw); rows = min(rows, lh)
            x = rng.randrange(0, lw - n + 1); y = rng.randrange(0, lh - rows + 1)
            for r in range(rows):
                run_(x, y + r, n)
            if rng.random() < 0.4:   # one more row of a different shape
                run_(min(x + 1, lw - 1), min(y + rows, lh - 1), 1)
        elif kind == "rev":
            n = min(rng.randrange(1, 8), lw); x = rng.randrange(0, lw - n + 1); y = rng.randrange(lh)
            run_(x + n - 1, y, n, -1)
        elif kind == "dup":
            n = min(rng.randrange(1, 6), lw); x = rng.randrange(0, lw - n + 1); y = rng.randrange(lh)
            run_(x, y, n); run_(x, y, n)
        elif kind == "scatter":
            for _ in range(rng.randrange(1, 6)):
                emit(rng.randrange(lw), rng.randrange(lh))
        elif kind == "col":
            n = min(rng.randrange(1, 8), lh); x = rng.randrange(lw); y = rng.randrange(0, lh - n + 1)
            for i in range(n):
                emit(x, y + i)
        elif kind == "gap":
            n = min(rng.randrange(2, 6), lw // 2 if lw >= 4 else 1); y = rng.randrange(lh)
            x = rng.randrange(0, max(lw - 2 * n, 1))
            for i in range(n):
                emit(min(x + 2 * i, lw - 1), y)
        if oob and rng.random() < 0.3:
            emit(rng.choice([-1, lw, lw + 1, 65536, -65536]), rng.randrange(lh))
    return px[:maxlen]


def f_long_streams(ids, rng, n, ifaces=("rec",), tag="long", maxlen=400, shapes=None):
    out = []
    shapes = shapes or [("tiny565_300x3", 300, 3), ("tiny565_40x36", 40, 36), ("tiny565_2000x1", 2000, 1),
                        ("st7789", 240, 320), ("tiny565_7x5", 7, 5)]
    for i in range(n):
        model, W, H = rng.choice(shapes)
        rot, mir = rng.choice(ORIENTS)
        if W * H > 100000:
            w, h, ox, oy = W, H, 0, 0
            if rng.random() < 0.5:
                w = rng.randrange(60, W + 1); h = rng.randrange(60, H + 1)
                ox = rng.randrange(0, W - w + 1); oy = rng.randrange(0, H - h + 1)
        else:
            w = rng.randrange(max(1, W // 2), W + 1); h = rng.randrange(max(1, H // 2), H + 1)
            ox = rng.randrange(0, W - w + 1); oy = rng.randrange(0, H - h + 1)
        lw, lh = lsize(w, h, rot)
        iface = rng.choice(ifaces)
        c = cfg(model, w, h, ox, oy, rot, mir, iface=iface, buf=rng.choice([2, 3, 64, 100, 101, 512]))
        calls = [INIT]
        for _ in range(rng.randrange(1, 4)):
            calls.append({"name": "draw_iter", "px": long_stream(rng, lw, lh, maxlen=rng.choice([20, 120, maxlen]))})
        out.append(scn(ids, c, calls, tag=tag))
    return out


def measure_rowcap(ids):
    """one long left-to-right run: the length of the first burst is the driver's row capacity (C20)"""
    px = [[x, 0, (x + 1) % 65536] for x in range(1000)]
    return scn(ids, cfg("tiny565_2000x1", 2000, 1, 0, 0, 0, False, iface="rec"), [INIT, {"name": "draw_iter", "px": px}],
               tag="measure_rowcap")


# ------------------------------------------------------------------------- orientation changes (C10)

def f_reorient(ids, rng, models, ifaces=("rec",), seq_len=3, per_cfg=1, tag="reorient", sample=1.0):
    out = []
    for (model, W, H, wins) in models:
        for (w, h, ox, oy) in wins:
            for (rot, mir) in ORIENTS:
                for iface in ifaces:
                    if sample < 1.0 and rng.random() > sample:
                        continue
                    for _ in range(per_cfg):
                        c = cfg(model, w, h, ox, oy, rot, mir, iface=iface, buf=rng.choice([2, 4, 64]),
                                bgr=rng.random() < 0.5, refv=rng.randrange(2), refh=rng.randrange(2), inv=rng.random() < 0.3)
                        calls = [INIT]
                        col = 10
                        for _ in range(rng.randrange(1, seq_len + 1)):
                            r2, m2 = rng.choice(ORIENTS)
                            calls.append({"name": "set_orientation", "rot": r2, "mir": m2})
                            lw, lh = lsize(w, h, r2)
                            # a pixel at every corner, a clipped fill, a stream, a clear
                            for (x, y) in {(0, 0), (lw - 1, 0), (0, lh - 1), (lw - 1, lh - 1)}:
                                calls.append({"name": "set_pixel", "x": x, "y": y, "c": col}); col += 1
                            calls.append({"name": "fill_solid", "rect": [lw - 1, lh - 1, 3, 3], "c": col}); col += 1
                            calls.append({"name": "fill_contiguous", "rect": [-1, 0, lw + 2, lh], "colors": {"start": col, "len": -1}}); col += 50
                            calls.append({"name": "draw_iter", "px": [[x, lh - 1, col + x] for x in range(lw)] + [[lw, 0, 5], [0, lh, 6]]}); col += 20
                            if rng.random() < 0.3:
                                calls.append({"name": "clear", "c": col}); col += 1
                        out.append(scn(ids, c, calls, tag=tag))
    return out


def f_contig_tiny(ids, rng, sample=1.0, ifaces=("rec",), sizes=((2, 3), (3, 2), (4, 3), (1, 1), (3, 3))):
    """every rectangle with corner in -2..lw+1 and size 0..lw+2 on small displays, stream lengths around the area"""
    out = []
    for (W, H) in sizes:
        model = "tiny565_%dx%d" % (W, H)
        for (w, h, ox, oy) in windows(W, H):
            for (rot, mir) in ORIENTS:
                if sample < 1.0 and rng.random() > sample:
                    continue
                lw, lh = lsize(w, h, rot)
                rects = list(all_rects(lw, lh, lo=-2, extra=1))
                rng.shuffle(rects)
                iface = rng.choice(ifaces)
                c = cfg(model, w, h, ox, oy, rot, mir, iface=iface, buf=rng.choice([2, 3, 64]))
                calls = [INIT, {"name": "clear", "c": 3}]
                col = 50
                for r in rects[:14]:
                    area = r[2] * r[3]
                    for ln in rng.sample([0, 1, max(area - 1, 0), area, area + 3, -1], 2):
                        calls.append({"name": "fill_contiguous", "rect": r, "colors": {"start": col, "len": ln}})
                        col += 64
                out.append(scn(ids, c, calls, tag="contig"))
    return out
