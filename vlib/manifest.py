"""Writes /verif/MANIFEST.json from the table below (python3 -m vlib.manifest)."""
import json
import os

VERIF = os.path.dirname(os.path.dirname(os.path.abspath(__file__)))

TRUSTED = ("Trusted: the reference MIPI-DCS decoder in spec/Controller.tla + spec/Wire.tla (DESIGN.md section 4), the recording "
           "harness (contains no oracle; self-test shows corrupted traces are rejected), TLC and the CommunityModules overrides. "
           "Exhaustive only within the stated small scopes; real sizes are covered by boundary-value and seeded random programs.")

# id -> (technique, level text, design ref)
CHECKS = {
    "C01": ("TLA+ spec (Geometry/Abstract/Controller/Driver): TLC model MC_Placement with program export, TLC trace validation of real-code executions, TLAPS lemma for all sizes",
            "Every recorded call of the real Display on every transport is replayed through the TLA+ controller model and the decoded "
            "framebuffer must equal the closed-form Place() picture after every call; small scopes are exhaustive "
            "(all windows of all framebuffers up to 3x3 and 4x3, all 8 orientations); TLC-generated programs are replayed on "
            "the real crate; the window/decoder/placement arithmetic is proved for all sizes with TLAPS (Lemmas.tla).", "7/C01"),
    "C02": ("TLA+ spec + TLC trace validation (boundary-value and small-scope out-of-range programs on the real Display)",
            "Every DrawTarget call with out-of-range arguments is executed on the real crate; the monitor requires Ok, the decoded "
            "framebuffer to equal the picture with the outside points dropped, no cell outside the panel window and no address "
            "outside the controller framebuffer.", "7/C02"),
    "C03": ("TLA+ spec + TLC trace validation of draw_iter streams (distinct colour per element) against last-write-wins painting; TLC models MC_Batch_* (every short stream) and MC_Fused (iterator polling protocol)",
            "Streams built around the row/block capacities (49/50/51, 99/100/101, stacked equal rows, shape changes, repeats) are "
            "executed with and without the batch feature, also from iterators that are not fused (the stream ends at its first None); "
            "the decoded framebuffer must equal the in-order painting.", "7/C03"),
    "C04": ("TLA+ spec + TLC trace validation of fill_contiguous with index-coded colour streams; TLC models MC_Small clip16, MC_Fused",
            "Every small rectangle around small displays, boundary-value rectangles and stream lengths around the area; decoded "
            "framebuffer must carry colour k on point k; pulls from an unbounded source are bounded.", "7/C04"),
    "C08": ("TLA+ framing automaton over the interface-level reconstruction of every drawing call (trace validation with TLC)",
            "Each drawing call's traffic must be groups 2A p4 . 2B p4 . 2C . pixels with start<=end, end inside the framebuffer "
            "under the current address mode, whole pixels, and no more pixels than the window for DrawTarget calls.", "7/C08"),
    "C10": ("TLA+ spec + TLC trace validation of orientation-change histories followed by drawing",
            "After each set_orientation the getters, the controller's address mode and the placement/clipping of every later "
            "drawing call must agree with the last orientation set.", "7/C10"),
    "C20": ("TLA+ counters over the interface-level reconstruction (window set-ups, SPI transactions); row capacity measured",
            "Fills use exactly one window set-up; draw_iter uses no more set-ups than its runs split at the measured row "
            "capacity; SPI bursts use at most floor(b/usable)+1 transactions.", "7/C20"),
    "C06": ("TLA+ spec (Wire/Controller) + TLC trace validation of the real SpiInterface over a recording SPI device",
            "For every interface-level call the bytes seen under D/C low/high must be exactly instruction / parameters / pixel "
            "bytes in order; the transaction count is bounded (a non-terminating loop is cut by an operation budget and rejected); "
            "repeat counts up to 2^32-1 must still be sending the pattern when the budget ends.", "7/C06"),
    "C07": ("TLA+ spec (Wire strobe sampling) + TLC trace validation of the real ParallelInterface and Generic8/16BitBus over recording pins; TLC step machines MC_Parallel, MC_ParXfer",
            "The (D/C, data) samples at every WR rising edge must be exactly the words sent; after every successful set_value - "
            "whatever failed before - the pins show the value (walking-one/zero alphabets distinguish every pin).", "7/C07"),
    "C09": ("TLA+ InitVerdict over mathematical integers + TLC trace validation of real Builder::init calls; TLC model MC_Builder whose call sequences are executed on the real Builder",
            "Boundary grid and seeded random (w,h,ox,oy) on framebuffers 1x1 .. 65535x65535 and on all 14 built-in models, with and without reset pin, Builder calls in any order: "
            "verdict must equal the integer predicate and a rejected init must have performed no operation at all.", "7/C09"),
    "C11": ("TLA+ controller model + TLC trace validation of every model's real init on every interface kind",
            "After init the decoded controller state must be awake, on, MADCTL = encoding of the options, COLMOD matching the "
            "colour type, inversion as chosen, no pixel written, >=120 ms after sleep-out; unsupported kinds refused before any "
            "model command; the support matrix of the pinned tree is a constant of the specification.", "7/C11"),
    "C12": ("fault enumeration driven from the TLA+ trace monitor: fail the k-th low-level operation of every driver call",
            "For every k: error variant names the source of operation k with its payload, nothing is issued after it, no panic, "
            "sleep flag unchanged; then the same object must clear and draw correctly (decoded framebuffer).", "7/C12"),
    "C13": ("TLA+ controller model (sleep state, virtual clock) + TLC trace validation of lifecycle histories",
            "is_sleeping() follows the last successful sleep/wake, equals the controller's state decoded from 10h/11h actually "
            "sent, every 10h/11h is followed by >=120 ms before the call returns and two are never closer than 120 ms.", "7/C13"),
    "C16": ("TLA+ spec + TLC trace validation of scroll calls over boundary grids",
            "One 33h with tfa+vsa+bfa = framebuffer height, pass-through when the sum fits, no panic for any u16 pair; 37h carries "
            "the offset big-endian.", "7/C16"),
    "C17": ("TLA+ timeline automaton over every recorded init (reset pin log, virtual clock, first bus event)",
            "With a pin: low, >=10 us, high, nothing on the bus before high, no 01h; without: first command is 01h exactly once.", "7/C17"),
    "C05": ("TLA+ encodings/decodings (Dcs.tla) + TLC validation of colour tables recorded from the real InterfacePixelFormat impls, and decoded pixels through every model",
            "Blocks of consecutive colour values are pushed through the real send_pixels / send_repeated_pixel on u8 and u16 "
            "words and compared word by word with Enc565x8/Enc565x16/Enc666x8; Dec(Enc(c)) = c is evaluated on the same domain; "
            "COLMOD announced by every model's init must select the decoder under which drawn walking-bit colours come back.", "7/C05"),
    "C14": ("TLA+ MadctlOf (bit by bit from the MIPI table) + TLC validation of tables of the real SetAddressMode constructors and setters",
            "All 64 input combinations of new / From<&ModelOptions>, setter sequences of length 1..3 from all 64 API-reachable "
            "start values; result must be MadctlOf of the last value per field, opcode 36h, one byte, nothing else touched.", "7/C14"),
    "C15": ("TLA+ geometric oracle (Show/RotCW/Mirror on an injective picture) + TLC validation of tables of the real orientation operations and angle parser",
            "Every word of length <= 4 over the six generators from all 8 orientations must show the pre-transformed picture; "
            "angle parsing equals the residue rule on boundary, random and (thorough) all 2^32 angles.", "7/C15"),
    "C18": ("TLA+ command encodings (Dcs.tla) + TLC validation of tables of every real DCS command type, write_command and write_raw",
            "Opcode, parameter bytes (big-endian), reported length, bytes beyond it untouched (two prefill patterns), and the "
            "exact interface-level traffic of write_command / write_raw.", "7/C18"),
    "C19": ("TLA+ picture predicates + TLC validation of the real TestImage drawn on a clipping framebuffer for every size, and through real Displays",
            "No panic for any size from 0x0; for >= 32x32: all painted, exact one-pixel white frame, pure red left of green left "
            "of blue, different from its 7 symmetric versions.", "7/C19"),
}

NOT_APPLICABLE = []


def build():
    checks = []
    for pid, (tech, text, ref) in sorted(CHECKS.items()):
        checks.append({
            "property_id": pid,
            "quick_cmd": "./check %s --tier quick" % pid,
            "thorough_cmd": "./check %s --tier thorough" % pid,
            "evidence_file": "/verif/evidence/%s.json" % pid,
            "replay_cmd_template": "./check %s --replay {path}" % pid,
            "engine": "tla-trace",
            "level_claimed": {"category": "fault_enumeration" if pid == "C12" else "model_checking", "text": text, "design_ref": "DESIGN.md section " + ref},
            "level_note": TRUSTED,
            "technique": tech,
        })
    return {
        "version": 1,
        "setup_cmd": "./setup.sh",
        "hooks": {
            "guard": "mipidsi_verif",
            "enable": "none needed: every observation point is a public trait boundary (SpiDevice, OutputPin, DelayNs, Interface, Model, DrawTarget) or a public getter; the harness in /verif/harness links the unmodified crate from /repo",
            "baseline_off_cmd": "cd /repo && cargo test --workspace --no-fail-fast --offline",
            "source_commits": [],
            "add_only": True,
        },
        "engines": [
            {"name": "tla-trace", "path": "/verif/check",
             "serves_properties": sorted(CHECKS.keys()),
             "kind_free_text": "explicit TLA+ specification (spec/*.tla) checked with TLC: design-level MC_* models, TLC-generated scenarios replayed on the real crate, and trace validation of recorded executions (Trace.tla)"},
        ],
        "checks": checks,
        "not_applicable": NOT_APPLICABLE,
        "notes": "See DESIGN.md. Exit 2 = tool error. Known findings: known_findings.txt (seven defects found on the pinned tree, all repaired in /repo by unguarded fix: commits 3ea2894 b28442c 0bc5833 11910b9 85dd892 4333934 7768fca; no open finding).",
    }


if __name__ == "__main__":
    with open(os.path.join(VERIF, "MANIFEST.json"), "w") as f:
        json.dump(build(), f, indent=1)
    print("MANIFEST.json written with %d checks" % len(CHECKS))
