"""Writes /verif/MANIFEST.json from the table below (python3 -m vlib.manifest)."""
import json
import os

VERIF = os.path.dirname(os.path.dirname(os.path.abspath(__file__)))

TRUSTED = ("Trusted: the reference MIPI-DCS decoder in spec/Controller.tla + spec/Wire.tla (DESIGN.md section 4), the recording "
           "harness (contains no oracle; self-test shows corrupted traces are rejected), TLC and the CommunityModules overrides. "
           "Exhaustive only within the stated small scopes; real sizes are covered by boundary-value and seeded random programs.")

# id -> (technique, level text, design ref)
CHECKS = {
    "C01": ("TLA+ spec (Geometry/Abstract/Controller) + TLC trace validation of real-code executions; design-level TLC model MC_Placement",
            "Every recorded call of the real Display on every transport is replayed through the TLA+ controller model and the decoded "
            "framebuffer must equal the closed-form Place() picture after every call; small scopes are exhaustive "
            "(all windows of all framebuffers up to 3x3 and 4x3, all 8 orientations).", "7/C01"),
}

NOT_APPLICABLE = []


def build():
    checks = []
    for pid, (tech, text, ref) in sorted(CHECKS.items()):
        checks.append({
            "property_id": pid,
            "quick_cmd": "./check %s --tier quick" % pid,
            "thorough_cmd": "./check %s --tier thorough" % pid,
            "evidence_file": "/verif/evidence/%s.json" % pid,
            "replay_cmd_template": "./check %s --replay {path}" % pid,
            "engine": "tla-trace",
            "level_claimed": {"category": "model_checking", "text": text, "design_ref": "DESIGN.md section " + ref},
            "level_note": TRUSTED,
            "technique": tech,
        })
    return {
        "version": 1,
        "setup_cmd": "./setup.sh",
        "hooks": {
            "guard": "mipidsi_verif",
            "enable": "none needed: every observation point is a public trait boundary (SpiDevice, OutputPin, DelayNs, Interface, Model, DrawTarget) or a public getter; the harness in /verif/harness links the unmodified crate from /repo",
            "baseline_off_cmd": "cd /repo && cargo test --workspace --no-fail-fast --offline",
            "source_commits": [],
            "add_only": True,
        },
        "engines": [
            {"name": "tla-trace", "path": "/verif/check",
             "serves_properties": sorted(CHECKS.keys()),
             "kind_free_text": "explicit TLA+ specification (spec/*.tla) checked with TLC: design-level MC_* models, TLC-generated scenarios replayed on the real crate, and trace validation of recorded executions (Trace.tla)"},
        ],
        "checks": checks,
        "not_applicable": NOT_APPLICABLE,
        "notes": "See DESIGN.md. Exit 2 = tool error. Known findings: known_findings.txt.",
    }


if __name__ == "__main__":
    with open(os.path.join(VERIF, "MANIFEST.json"), "w") as f:
        json.dump(build(), f, indent=1)
    print("MANIFEST.json written with %d checks" % len(CHECKS))
