"""Per-property plans: which design-level models are checked, which scenario families are executed
on the real code, how verdicts become exit codes, and what the evidence file says."""
import json
import os
import random
import shutil
import time

from . import gen, run
from .run import ToolError, log

VERIF = run.VERIF
KNOWN_FILE = os.path.join(VERIF, "known_findings.txt")


# ----------------------------------------------------------------------------- known findings

def load_known():
    known, fixed = [], []
    if os.path.exists(KNOWN_FILE):
        for ln in open(KNOWN_FILE):
            ln = ln.strip()
            if ln.startswith("known:"):
                parts = dict(p.split("=", 1) for p in ln[6:].split() if "=" in p and p.split("=")[0] in ("property", "call", "iface", "match"))
                known.append({"line": ln, **parts})
            elif ln.startswith("fixed:"):
                fixed.append(ln)
    return known, fixed


def known_match(prop, v, sc, known):
    """a known finding names the property, the call and a substring of the verdict text; optionally the interface"""
    for k in known:
        if k.get("property") != prop:
            continue
        if k.get("call") and k["call"] != v["name"]:
            continue
        if k.get("iface") and k["iface"] != sc["cfg"].get("iface"):
            continue
        if k.get("match") and k["match"].replace("_", " ") not in v["what"]:
            continue
        return k
    return None


# ----------------------------------------------------------------------------- plans

class Plan:
    def __init__(self, prop):
        self.prop = prop
        self.mc = []            # (module, cfg, workers, timeout)
        self.families = []      # (name, batch, profile, generator(ids, rng) -> scenarios)
        self.tables = []        # (name, batch, profile, generator(rng) -> table requests)
        self.rule = ""
        self.nontrivial = lambda sc: True
        self.assumptions = []
        self.exhaustive = False
        self.level = "model_checking"
        self.proofs = []        # (TLAPS module, expected number of obligations)


def add_edge_families(p, cfgname, edges):
    """programs exported by TLC from a design-level model (ACTION_CONSTRAINT Export) become scenarios for the real code"""
    progs = {True: [], False: []}
    builder = []
    for e in edges:
        try:
            d = json.loads(e)
        except ValueError:
            continue        # a line torn by concurrent workers
        if d["cfg"].get("builder"):
            builder.append(d)
            continue
        progs[bool(d["cfg"].get("batch", True))].append(d)
    if builder:
        builder.sort(key=lambda d: json.dumps(d, sort_keys=True))      # TLC's workers print in no particular order
        def gb(ids, rng, lst=builder):
            # every Builder call sequence TLC explored, executed on the real Builder: "real" kinds get a non-default
            # value, the others keep the default; the initialisation is judged against exactly that configuration
            out = []
            pool = [("tiny565_4x3", 4, 3, ["rec", "spi", "p8", "p16"]), ("st7789", 240, 320, ["rec", "spi", "p8"]),
                    ("ili9341_565", 240, 320, ["rec", "p16"]), ("gc9a01", 240, 240, ["rec", "spi"]), ("st7735s", 132, 162, ["rec", "p8"])]
            for i, d in enumerate(lst):
                model, W, H, ifs = pool[i % len(pool)]
                real = set(d["real"])
                c = {"model": model, "iface": ifs[(i // len(pool)) % len(ifs)], "buf": rng.choice([2, 3, 5, 64]), "rst": bool(d["rst"]),
                     "rot": 0, "mir": False, "bgr": False, "inv": False, "refv": 0, "refh": 0, "border": list(d["border"])}
                if "color" in real:
                    c["bgr"] = True
                if "invert" in real:
                    c["inv"] = True
                if "refresh" in real:
                    c["refv"], c["refh"] = rng.choice([(1, 0), (0, 1), (1, 1)])
                if "orient" in real:
                    c["rot"], c["mir"] = rng.choice([o for o in gen.ORIENTS if o != (0, False)])
                w, h, ox, oy = W, H, 0, 0
                if "size" in real:
                    w = rng.randrange(1, W); h = rng.randrange(1, H)
                    c["w"], c["h"] = w, h
                if "offset" in real:
                    # mostly an offset that fits the window, sometimes one that does not (init must reject it)
                    ox = rng.randrange(0, max(W - w, 0) + 2); oy = rng.randrange(0, max(H - h, 0) + 2)
                    if (ox, oy) == (0, 0):
                        ox = 1
                    c["ox"], c["oy"] = ox, oy
                calls = [gen.INIT]
                if w + ox <= W and h + oy <= H:
                    lw, lh = gen.lsize(w, h, c["rot"])
                    calls += [{"name": "set_pixel", "x": lw - 1, "y": 0, "c": 0x1234}, {"name": "fill_solid", "rect": [0, lh - 1, lw, 1], "c": 0x0F0F},
                              {"name": "set_orientation", "rot": (c["rot"] + 1) % 4, "mir": c["mir"]}]
                    lw, lh = lh, lw
                    calls.append({"name": "set_pixel", "x": 0, "y": lh - 1, "c": 0x4321})
                out.append(gen.scn(ids, c, calls, tag="builder"))
            return out
        p.families.append(("tlc-builder-%s" % cfgname, True, "dev", gb))
    for batch, lst in progs.items():
        if not lst:
            continue

        def g(ids, rng, lst=lst):
            out = []
            ifaces = ["spi", "spi", "p8", "p16", "spi_ref"] if "_seq_" in cfgname else ["rec", "rec", "spi", "p8", "p16"]
            for i, d in enumerate(lst):
                c = d["cfg"]
                cfg = gen.cfg("tiny565_%dx%d" % (c["W"], c["H"]), c["w"], c["h"], c["ox"], c["oy"], d["o0"]["rot"], d["o0"]["mir"],
                              iface=ifaces[i % len(ifaces)], buf=rng.choice([2, 3, 4, 5, 64]), rst=True)
                out.append(gen.scn(ids, cfg, [gen.INIT] + d["calls"], tag="mc-edge"))
            return out
        p.families.append(("tlc-programs-%s-%s" % (cfgname, "batch" if batch else "nobatch"), batch, "dev", g))


def drawing_calls(sc):
    return [c for c in sc["calls"] if c["name"] in ("set_pixel", "set_pixels", "draw_iter", "fill_solid",
                                                    "fill_contiguous", "clear", "test_image")]


def plan_for(prop, tier, seed):
    q = tier == "quick"
    p = Plan(prop)
    G = gen
    MCP = "MC_Placement"
    if prop == "C01":
        p.proofs = [("Lemmas", 15)]
        p.mc = [("MC_Small", "MC_Small_lemmadefs", 4, 900, None),
                (MCP, "MC_Placement_in_q" if q else "MC_Placement_in_t", 12, 3000, None),
                (MCP, "MC_Placement_seq_q" if q else "MC_Placement_seq_t", 12, 3000, None)] + ([] if q else [(MCP, "MC_Placement_d2_t", 12, 3000, None)])
        p.rule = ("scenario = configuration (model, window, orientation, transport, SPI buffer) + program; non-trivial: "
                  "the program contains at least 3 in-bounds drawing calls through at least 2 different entry points")
        p.nontrivial = lambda sc: len(drawing_calls(sc)) >= 3 and len({c["name"] for c in drawing_calls(sc)}) >= 2
        p.families = [
            ("tiny-rec", True, "dev", lambda ids, rng: G.f_tiny_placement(ids, rng, ifaces=("rec",), sample=0.35 if q else 1.0)),
            ("tiny-xport", True, "dev", lambda ids, rng: G.f_tiny_placement(ids, rng, ifaces=("spi", "p8", "p16"), sample=0.06 if q else 0.5)),
            ("tiny-byref", True, "dev", lambda ids, rng: G.f_tiny_placement(ids, rng, ifaces=("spi_ref", "p8_ref", "p16_ref", "rec_ref"), sample=0.02 if q else 0.2)),
            ("tiny-nobatch", False, "dev", lambda ids, rng: G.f_tiny_placement(ids, rng, ifaces=("rec", "spi"), sample=0.08 if q else 0.5)),
            ("smallalpha", True, "dev", lambda ids, rng: G.f_small_alphabet(ids, rng, 500 if q else 8000, ifaces=("spi", "spi", "p8", "p16", "rec"))),
            # a call fails on the bus, the application draws on, retries, draws again: everything in bounds
            ("fault-retry", True, "dev", lambda ids, rng: G.f_fault_retry(ids, rng, 300 if q else 8000, flavour="colour", ifaces=("spi", "p8", "rec", "p16"))),
        ]
    elif prop == "C02":
        p.mc = [(MCP, "MC_Placement_oob_q" if q else "MC_Placement_oob_t", 12, 3000, None)] + ([] if q else [(MCP, "MC_Placement_scaled", 12, 3000, None)])
        p.rule = ("scenario = configuration + program of DrawTarget calls; non-trivial: at least one call carries an argument "
                  "outside the bounding box (negative, >= width/height, >= 65536 or an i32 extreme)")
        p.nontrivial = lambda sc: any(_has_oob(sc, c) for c in sc["calls"])
        small = [(1, 1), (2, 3), (3, 2), (4, 3)] if q else G.TINY_SIZES
        p.families = [
            ("tiny-oob", True, "dev", lambda ids, rng: G.f_tiny_placement(ids, rng, ifaces=("rec",), oob=True, sample=0.25 if q else 1.0)),
            ("tiny-oob-nobatch", False, "dev", lambda ids, rng: G.f_tiny_placement(ids, rng, ifaces=("rec", "spi"), oob=True, sample=0.05 if q else 0.4)),
            ("oob-streams", True, "dev", lambda ids, rng: G.f_oob_streams(ids, rng, G.tiny_model_list(small, rng, 6 if q else 30), ifaces=("rec", "spi") if q else ("rec", "spi", "p8", "p16"))),
            ("oob-streams-nobatch", False, "dev", lambda ids, rng: G.f_oob_streams(ids, rng, G.tiny_model_list(small, rng, 3 if q else 20))),
            ("oob-rects", True, "dev", lambda ids, rng: G.f_oob_rects(ids, rng, G.tiny_model_list(small, rng, 4 if q else 30), ifaces=("rec", "spi"))),
            ("oob-fault-retry", True, "dev", lambda ids, rng: G.f_fault_retry(ids, rng, 300 if q else 5000, flavour="oob")),
            ("oob-real", True, "dev", lambda ids, rng: G.f_oob_streams(ids, rng, G.real_model_list(rng, ["st7789", "gc9107"] if q else None, full=False, maxside=48 if q else 64), n_per_cfg=4)
                                                       + G.f_oob_rects(ids, rng, G.real_model_list(rng, ["ili9341_666", "st7735s"] if q else None, full=False, maxside=48 if q else 64), n_per_cfg=4)),
        ]
        if not q:
            # full-size panels (every comparison touches up to 76 800 cells): a handful of scenarios only
            p.families.append(("oob-real-fullsize", True, "dev", lambda ids, rng: [sc for sc in G.f_oob_rects(ids, rng, [("gc9107", 128, 160, [(128, 160, 0, 0)]), ("st7789", 240, 320, [(240, 320, 0, 0)])], n_per_cfg=3)][::2]))
    elif prop == "C03":
        p.mc = [(MCP, "MC_Batch_q" if q else "MC_Batch_t", 12, 3000, None), ("MC_Fused", "MC_Fused", 4, 900, None)] + ([] if q else [(MCP, "MC_Batch_oob_t", 12, 3000, None)])
        p.rule = ("scenario = configuration + draw_iter streams (colour i on the i-th element); non-trivial: a stream of at "
                  "least 2 pixels that contains a left-to-right adjacency or a repeated position")
        p.nontrivial = lambda sc: any(c["name"] == "draw_iter" and len(c["px"]) >= 2 for c in sc["calls"])
        p.families = [
            ("long", True, "dev", lambda ids, rng: G.f_long_streams(ids, rng, 250 if q else 4000, ifaces=("rec", "rec", "spi", "p8"))),
            ("long-oob", True, "dev", lambda ids, rng: G.f_long_streams(ids, rng, 60 if q else 1000, ifaces=("rec",), oob=True)),
            ("long-nobatch", False, "dev", lambda ids, rng: G.f_long_streams(ids, rng, 60 if q else 600, ifaces=("rec", "spi"), maxlen=150)),
            ("tiny-streams", True, "dev", lambda ids, rng: G.f_tiny_placement(ids, rng, ifaces=("rec",), sample=0.1 if q else 0.6)),
            # streams after a failed orientation change / a failed stream, with retries and a power cycle in the recovery
            ("streams-after-fault", True, "dev", lambda ids, rng: {"bases": [b for _ in range(1 if q else 3) for b in G.fault_bases(ids, rng, q)
                                                                            if b["tag"] == "fault-op" and b["calls"][b["_target"] - 1]["name"] in ("set_orientation", "draw_iter")]}),
        ]
    elif prop == "C04":
        p.mc = [("MC_Small", "MC_Small_clip16", 4, 600, None), ("MC_Fused", "MC_Fused", 4, 900, None),
                (MCP, "MC_Placement_in_q" if q else "MC_Placement_in_t", 12, 3000, None)]
        p.rule = ("scenario = configuration + fill_contiguous calls; non-trivial: a rectangle that is partly clipped or a colour "
                  "stream whose length differs from the area")
        p.nontrivial = lambda sc: any(c["name"] == "fill_contiguous" for c in sc["calls"])
        p.families = [
            ("contig-tiny", True, "dev", lambda ids, rng: G.f_contig_tiny(ids, rng, sample=0.15 if q else 1.0, ifaces=("rec", "spi", "spi"))),
            ("contig-fault-retry", True, "dev", lambda ids, rng: G.f_fault_retry(ids, rng, 300 if q else 5000, flavour="contig")),
            ("contig-rects", True, "dev", lambda ids, rng: G.f_oob_rects(ids, rng, G.tiny_model_list([(2, 3), (4, 3), (7, 5)], rng, 4 if q else 40), ifaces=("rec", "spi", "p8"))),
            ("contig-real", True, "dev", lambda ids, rng: G.f_oob_rects(ids, rng, G.real_model_list(rng, ["st7789", "ili9486_666"] if q else None, full=False, maxside=48 if q else 64), n_per_cfg=5, ifaces=("rec",))),
        ]
    elif prop == "C08":
        p.mc = [(MCP, "MC_Placement_re_q" if q else "MC_Placement_d2_t", 12, 3000, None)] + ([] if q else [(MCP, "MC_Placement_scaled", 12, 3000, None)])
        p.rule = ("scenario = configuration + drawing program (all entry points, in- and out-of-bounds); non-trivial: at least "
                  "one drawing call that emits a pixel burst")
        p.nontrivial = lambda sc: len(drawing_calls(sc)) >= 1
        small = [(2, 3), (3, 2), (4, 3)] if q else G.TINY_SIZES
        p.families = [
            ("tiny-in", True, "dev", lambda ids, rng: G.f_tiny_placement(ids, rng, ifaces=("rec", "spi", "p8", "p16"), sample=0.05 if q else 0.5)),
            ("tiny-oob", True, "dev", lambda ids, rng: G.f_tiny_placement(ids, rng, ifaces=("rec", "spi"), oob=True, sample=0.06 if q else 0.5)),
            ("tiny-nobatch", False, "dev", lambda ids, rng: G.f_tiny_placement(ids, rng, ifaces=("rec",), oob=True, sample=0.05 if q else 0.5)),
            ("oob-streams", True, "dev", lambda ids, rng: G.f_oob_streams(ids, rng, G.tiny_model_list(small, rng, 4 if q else 30), ifaces=("rec", "p8"))),
            ("long", True, "dev", lambda ids, rng: G.f_long_streams(ids, rng, 80 if q else 1500, ifaces=("rec", "spi"))),
            ("oob-rects", True, "dev", lambda ids, rng: G.f_oob_rects(ids, rng, G.tiny_model_list(small, rng, 3 if q else 30), ifaces=("rec",))),
            ("sequences", True, "dev", lambda ids, rng: G.f_small_alphabet(ids, rng, 300 if q else 5000, ifaces=("p8", "spi", "p16", "rec"))),
            # a call fails half-way through a word / a burst; the groups emitted by the calls after it are as well-formed as ever
            ("framing-after-fault", True, "dev", lambda ids, rng: G.f_fault_retry(ids, rng, 300 if q else 8000, flavour="colour", ifaces=("p8", "p16", "spi"))
                                                                  + G.f_fault_retry(ids, rng, 100 if q else 3000, flavour="oob", ifaces=("p8", "spi"))),
        ]
    elif prop == "C10":
        p.mc = [(MCP, "MC_Placement_re_q" if q else "MC_Placement_d2_t", 12, 3000, None)]
        p.rule = ("scenario = initial configuration + sequence of set_orientation calls, each followed by corner pixels, a "
                  "clipped fill, a clipped contiguous fill and a stream; non-trivial: at least one orientation change to a "
                  "different orientation")
        p.nontrivial = lambda sc: any(c["name"] == "set_orientation" and (c["rot"], c["mir"]) != (sc["cfg"]["rot"], sc["cfg"]["mir"]) for c in sc["calls"])
        p.families = [
            ("reorient-tiny", True, "dev", lambda ids, rng: G.f_reorient(ids, rng, G.tiny_model_list([(2, 3), (3, 2), (4, 3), (1, 1), (3, 3)], rng, 8 if q else 60), ifaces=("rec",))),
            ("reorient-xport", True, "dev", lambda ids, rng: G.f_reorient(ids, rng, G.tiny_model_list([(2, 3), (4, 3)], rng, 3 if q else 20), ifaces=("spi", "p8", "p16"), sample=0.5 if q else 1.0)),
            ("reorient-real", True, "dev", lambda ids, rng: G.f_reorient(ids, rng, G.real_model_list(rng, None, n_windows=1 if q else 3, full=False, maxside=12 if q else 40), ifaces=("rec",), sample=0.4 if q else 1.0)),
            ("reorient-nobatch", False, "dev", lambda ids, rng: G.f_reorient(ids, rng, G.tiny_model_list([(2, 3), (4, 3)], rng, 3 if q else 20), ifaces=("rec",))),
            # an external model that programs (and returns) its own colour order: the bits it set must survive set_orientation
            ("reorient-own-madctl", True, "dev", lambda ids, rng: G.f_reorient(ids, rng, [("tinybgr565_4x3", 4, 3, rng.sample(list(G.windows(4, 3)), 4 if q else 30))], ifaces=("rec", "spi"))),
            # orientation changes inside power-state / tearing / scrolling histories: the address mode the controller ends up
            # with is the one of the last set_orientation, whatever else was (re-)sent in between
            ("reorient-asleep", True, "dev", lambda ids, rng: G.f_orient_asleep(ids, rng, n=120 if q else 5000)),
            ("reorient-lifecycle", True, "dev", lambda ids, rng: G.f_lifecycle(ids, rng, n_per_model=4 if q else 200, length=10 if q else 20)),
            ("reorient-fault-retry", True, "dev", lambda ids, rng: G.f_fault_retry(ids, rng, 200 if q else 5000, flavour="colour", ifaces=("spi", "p8", "rec"))),
        ]
    elif prop == "C20":
        p.mc = [("MC_Spi", "MC_Spi", 8, 900, None), (MCP, "MC_Batch_q" if q else "MC_Batch_t", 12, 3000, None)]
        p.rule = ("scenario = configuration + fills / long streams; non-trivial: a fill with a visible part, or a stream with a "
                  "left-to-right run of at least 2 pixels; the row capacity is measured from one 1000-pixel run")
        p.nontrivial = lambda sc: len(drawing_calls(sc)) >= 1
        p.families = [
            ("overhead", True, "dev", lambda ids, rng: [G.measure_rowcap(ids)] + G.f_long_streams(ids, rng, 150 if q else 3000, ifaces=("rec", "spi")) ),
            ("overhead-oob", True, "dev", lambda ids, rng: G.f_long_streams(ids, rng, 60 if q else 1500, ifaces=("rec", "spi"), oob=True)),
            ("overhead-sequences", True, "dev", lambda ids, rng: G.f_small_alphabet(ids, rng, 400 if q else 6000, ifaces=("spi",))),
            ("overhead-spi-grid", True, "dev", lambda ids, rng: G.f_spi_grid(ids, rng, sample=0.5 if q else 1.0, big=4 if q else 60)),
            ("overhead-big-fills", True, "dev", lambda ids, rng: G.f_big_fills(ids, rng, n=2 if q else 12)),
            ("overhead-fills", True, "dev", lambda ids, rng: G.f_tiny_placement(ids, rng, ifaces=("rec", "spi"), sample=0.05 if q else 0.5)
                                            + G.f_oob_rects(ids, rng, G.tiny_model_list([(4, 3), (7, 5)], rng, 3 if q else 30), ifaces=("spi",))),
        ]
    elif prop == "C06":
        p.mc = [("MC_Spi", "MC_Spi", 8, 900, None), (MCP, "MC_Placement_seq_q" if q else "MC_Placement_seq_t", 12, 3000, None)]
        p.rule = ("case = one interface-level call on the real SpiInterface (buffer length, words per pixel, count / pixel list / "
                  "parameter list); non-trivial: count is 0, a multiple of the buffer capacity, or spans more than one buffer; "
                  "or a parameter list longer than 0")
        p.nontrivial = lambda sc: True
        p.families = [
            ("spi-grid", True, "dev", lambda ids, rng: G.f_spi_grid(ids, rng, sample=0.5 if q else 1.0, big=6 if q else 600)),
            ("spi-displays", True, "dev", lambda ids, rng: G.f_tiny_placement(ids, rng, ifaces=("spi",), sample=0.04 if q else 0.4)),
            ("spi-smallalpha", True, "dev", lambda ids, rng: G.f_small_alphabet(ids, rng, 400 if q else 20000, ifaces=("spi",))),
            ("spi-faults", True, "dev", lambda ids, rng: G.f_xport_faults(ids, rng, ifaces=("spi",), n=200 if q else 20000)),
            ("spi-contig", True, "dev", lambda ids, rng: G.f_contig_tiny(ids, rng, sample=0.1 if q else 0.8, ifaces=("spi",))),
        ]
    elif prop == "C07":
        p.mc = [("MC_Parallel", "MC_Parallel", 8, 900, None), ("MC_ParXfer", "MC_ParXfer", 4, 900, None),
                (MCP, "MC_Placement_seq_q" if q else "MC_Placement_seq_t", 12, 3000, None)]
        p.rule = ("case = word sequences / repeat counts on the real ParallelInterface (8 and 16 pins) and set_value histories "
                  "with injected data-pin failures; non-trivial: equal consecutive words, an all-equal repeated pixel, or a failure")
        p.nontrivial = lambda sc: True
        p.families = [
            ("parallel", True, "dev", lambda ids, rng: G.f_parallel(ids, rng, sample=0.4 if q else 4.0, big=2 if q else 24)),
            ("parallel-displays", True, "dev", lambda ids, rng: G.f_tiny_placement(ids, rng, ifaces=("p8", "p16"), sample=0.03 if q else 0.3)),
            ("parallel-smallalpha", True, "dev", lambda ids, rng: G.f_small_alphabet(ids, rng, 300 if q else 20000, ifaces=("p8", "p16"))),
            ("parallel-faults", True, "dev", lambda ids, rng: G.f_xport_faults(ids, rng, ifaces=("p8", "p16"), n=300 if q else 20000)),
        ]
    elif prop == "C09":
        p.mc = [("MC_Small", "MC_Small_init", 8, 900, None), ("MC_Builder", "MC_Builder_q" if q else "MC_Builder_t", 4, 900, None)]
        p.rule = ("case = (width, height, offset_x, offset_y, framebuffer, reset pin) given to Builder::init; non-trivial: the "
                  "tuple is within one unit of an acceptance boundary, contains a zero, or offset + size exceeds 65535")
        p.nontrivial = lambda sc: True
        p.families = [
            ("init-grid", True, "dev", lambda ids, rng: G.f_init_grid(ids, rng, nrandom=3000 if q else 400000, grid_sample=0.3 if q else 10.0)),
        ]
    elif prop in ("C11", "C17"):
        p.mc = [("MC_ModelInit", "MC_ModelInit", 12, 900, None)] + ([("MC_Builder", "MC_Builder_q" if q else "MC_Builder_t", 4, 900, None)] if prop == "C11" else [])
        p.rule = ("case = (model, interface kind, colour order, orientation, inversion, refresh order, reset pin); all 14 models x "
                  "every kind they accept or refuse, through Builder::init on real and recording transports and through "
                  "Model::init directly where the colour type hides the pairing from Builder")
        p.nontrivial = lambda sc: True
        p.families = [
            ("model-init", True, "dev", lambda ids, rng: [sc for _ in range(1 if q else 3) for sc in G.f_model_init(ids, rng, full=not q)]),
        ]
        if prop == "C17":
            # the reset step under a failing bus: a failure must not make the reset happen twice
            p.families.append(("reset-faults", True, "dev", lambda ids, rng: {"bases": [b for b in G.fault_bases(ids, rng, q) if b["tag"] == "fault-init"]}))
    elif prop == "C12":
        p.mc = [("MC_Spi", "MC_Spi", 8, 900, None), ("MC_Parallel", "MC_Parallel", 8, 900, None), ("MC_ParXfer", "MC_ParXfer", 4, 900, None)]
        p.level = "fault_enumeration"
        p.rule = ("case = (driver operation, model, transport, index k of the failing low-level operation); every k of every SPI "
                  "call in the quick tier and a seeded sample on the parallel transports, every k everywhere in the thorough tier")
        p.nontrivial = lambda sc: bool(sc.get("faults"))
        p.families = [
            ("faults", True, "dev", lambda ids, rng: {"bases": [b for _ in range(1 if q else 4) for b in G.fault_bases(ids, rng, q)]}),
        ]
    elif prop == "C13":
        p.mc = [("MC_Lifecycle", "MC_Lifecycle", 4, 900, None), ("MC_ModelInit", "MC_ModelInit", 12, 900, None)]
        p.rule = ("case = history over {sleep, wake, draw, set_orientation, scroll, tearing, clear} after init of a model; "
                  "non-trivial: at least two sleep/wake calls")
        p.nontrivial = lambda sc: sum(1 for c in sc["calls"] if c["name"] in ("sleep", "wake")) >= 2
        p.families = [
            ("lifecycle", True, "dev", lambda ids, rng: G.f_lifecycle(ids, rng, n_per_model=6 if q else 400, length=12 if q else 30)),
            ("lifecycle-faults", True, "dev", lambda ids, rng: G.f_lifecycle(ids, rng, n_per_model=5 if q else 300, length=10 if q else 24, fault_rate=0.5)),
            ("lifecycle-faults-anywhere", True, "dev", lambda ids, rng: G.f_lifecycle(ids, rng, n_per_model=8 if q else 300, length=10 if q else 24, fault_rate=0.1, any_fault_rate=0.4,
                                                                                       ifaces=("p8", "p8", "spi", "rec_p8"))),
            ("model-init", True, "dev", lambda ids, rng: G.f_model_init(ids, rng, full=False, after=False)),
        ]
    elif prop == "C16":
        p.mc = [("MC_Small", "MC_Small_scroll", 4, 900, None)]
        p.rule = ("case = (top, bottom) / offset on a model's framebuffer height; non-trivial: within one of the height boundary, "
                  "or top + bottom > 65535")
        p.nontrivial = lambda sc: True
        p.families = [
            ("scroll", True, "dev", lambda ids, rng: G.f_scroll(ids, rng, nrandom=300 if q else 100000, offsets="sample" if q else "all")),
        ]
    elif prop == "C05":
        p.rule = ("table rows = blocks of 256 consecutive colour values pushed through the real InterfacePixelFormat::send_pixels "
                  "and send_repeated_pixel on each word type (all 65 536 Rgb565 values; Rgb666: all values in the thorough tier, "
                  "every value of every channel + seeded blocks in the quick tier); scenarios = walking-bit colours drawn through "
                  "every built-in model on every transport and decoded back")
        p.nontrivial = lambda sc: True
        p.exhaustive = not q
        p.tables = [("colours", True, "dev", lambda rng: G.t_colours(rng, full666=not q))]
        p.families = [
            ("colour-displays", True, "dev", lambda ids, rng: [sc for _ in range(1 if q else 8) for sc in G.f_colour_displays(ids, rng)]),
            ("colour-after-fault", True, "dev", lambda ids, rng: G.f_fault_retry(ids, rng, 300 if q else 8000, flavour="colour", ifaces=("p8", "p16", "spi"), tag="colour")),
            ("colour-sequences", True, "dev", lambda ids, rng: G.f_small_alphabet(ids, rng, 400 if q else 20000, ifaces=("spi", "spi", "p8", "p16"), tag="colour")),
            ("model-init", True, "dev", lambda ids, rng: G.f_model_init(ids, rng, full=False, after=False)),
        ]
    elif prop == "C14":
        p.mc = [("MC_Small", "MC_Small_madctl", 8, 900, None), ("MC_Builder", "MC_Builder_q" if q else "MC_Builder_t", 4, 900, None)]
        p.rule = ("table rows = SetAddressMode::new / From<&ModelOptions> for all 64 input combinations, and sequences of 1..3 "
                  "with_* setters from all 64 API-reachable starting values (length 1 complete, 2 and 3 seeded samples in the "
                  "quick tier, complete in the thorough tier)")
        p.exhaustive = not q
        p.tables = [("madctl", True, "dev", lambda rng: G.t_madctl(rng, seq3_sample=0.02 if q else 1.0))]
        p.families = [("model-init", True, "dev", lambda ids, rng: G.f_model_init(ids, rng, full=False, after=True)),
                      ("reorient-own-madctl", True, "dev", lambda ids, rng: G.f_reorient(ids, rng, [("tinybgr565_4x3", 4, 3, rng.sample(list(G.windows(4, 3)), 3 if q else 30))], ifaces=("rec",)))]
    elif prop == "C15":
        p.mc = [("MC_Small", "MC_Small_group", 8, 900, None), ("MC_Small", "MC_Small_angle", 4, 900, None)]
        p.rule = ("table rows = all words of length <= 4 over {rotate 0/90/180/270, flip_horizontal, flip_vertical} from all 8 "
                  "orientations (closure is reached at length 3), angle parsing over -720..720, the i32 ends, seeded samples and "
                  "a strided (quick) / complete (thorough) sweep of all 2^32 angles against the validated residue table")
        p.exhaustive = not q
        p.tables = [("orient", True, "dev", lambda rng: G.t_orient(rng, maxlen=3 if q else 5, stride=(1 << 8) if q else 1))]
        p.families = [("reorient-drawn", True, "dev", lambda ids, rng: G.f_reorient(ids, rng, G.tiny_model_list([(3, 2), (2, 3)], rng, 4), ifaces=("rec",), sample=0.5 if q else 1.0, tag="orient-drawn")),
                      # a model that programs its own colour order: the picture keeps its colours across orientation changes
                      ("reorient-own-madctl", True, "dev", lambda ids, rng: G.f_reorient(ids, rng, [("tinybgr565_4x3", 4, 3, rng.sample(list(G.windows(4, 3)), 3 if q else 30))], ifaces=("rec", "spi"), tag="orient-drawn")),
                      # an orientation change that fails on the bus and is retried
                      ("reorient-fault-retry", True, "dev", lambda ids, rng: G.f_fault_retry(ids, rng, 300 if q else 6000, flavour="oob", ifaces=("spi", "p8", "rec"), tag="orient-drawn"))]
    elif prop == "C18":
        p.rule = ("table rows = every command type with boundary-value, seeded random and (thorough) all-65536-per-position "
                  "arguments, serialised on buffers pre-filled with A5h and 5Ah, and sent through write_command / write_raw")
        p.tables = [("dcs", True, "dev", lambda rng: G.t_dcs(rng, nrandom=2000 if q else 300000, all_u16=not q))]
        p.families = [("dcs-over-transports", True, "dev", lambda ids, rng: G.f_dcs_over_transports(ids, rng, n=250 if q else 20000))]
    elif prop == "C19":
        p.rule = ("table rows = TestImage drawn on a clipping framebuffer for every size 0x0..NxN (N = 40 quick / 96 thorough) "
                  "and three colour types; predicates evaluated for sizes >= 32x32; scenarios = the image drawn through real "
                  "Displays in all orientations")
        p.tables = [("testimage", True, "dev", lambda rng: G.t_testimage(rng, maxsize=40 if q else 96,
                                                                          big=[(65535, 33), (33, 65535), (1000, 700)] if not q else [(400, 33)]))]
        p.families = [("testimage-display", True, "dev", lambda ids, rng: G.f_testimage_display(ids, rng, q))]
    else:
        raise ToolError("no plan for property %s" % prop)
    # iterators that are not fused: a stream ends at its first None (all entry points that take a stream)
    NF = {"C01": ("rec", "spi", "p8", "p16"), "C03": ("rec", "spi", "p8"), "C04": ("rec", "spi"), "C05": ("spi", "p8", "p16"),
          "C06": ("spi",), "C07": ("p8", "p16"), "C08": ("rec", "spi", "p8", "p16")}
    if prop in NF:
        ifs = NF[prop]
        tg = "colour" if prop == "C05" else "nonfused"
        p.families.append(("nonfused", True, "dev", lambda ids, rng: G.f_nonfused(ids, rng, n=120 if q else 4000, ifaces=ifs, tag=tg,
                                                                                  xport=prop in ("C05", "C06", "C07", "C08"))))
        if prop in ("C01", "C03", "C08"):
            p.families.append(("nonfused-nobatch", False, "dev", lambda ids, rng: G.f_nonfused(ids, rng, n=40 if q else 1000, ifaces=("rec", "spi"), tag=tg, xport=False)))
    # a second initialisation in the same scenario: from scratch over lines that keep their levels, or after
    # Display::release() over the same interface / bus / pin objects (also across a failed call)
    RI = {"C11": ("spi", "p8", "p16", "rec"), "C17": ("spi", "p8", "p16", "rec"), "C13": ("spi", "p8", "p16", "rec"),
          "C12": ("spi", "p8", "p16"), "C07": ("p8", "p16"), "C06": ("spi",)}
    if prop in RI:
        ifs2 = RI[prop]
        p.families.append(("reinit", True, "dev", lambda ids, rng: G.f_reinit(ids, rng, n=(300 if prop in ("C12", "C17") else 150) if q else 6000, ifaces=ifs2,
                                                                              fault_rate=0.5 if prop in ("C12", "C17") else 0.25)))
    HF = {"C01": ("p8", "p16", "spi"), "C06": ("spi",), "C07": ("p8", "p16")}
    if prop in HF:
        ifs3 = HF[prop]
        p.families.append(("huge-fill", True, "dev", lambda ids, rng: G.f_huge_fill(ids, rng, ifaces=ifs3)))
    if not q:
        # thorough tier: the same programs on a release-like build (no overflow checks, no debug assertions): a
        # debug-only panic is a silently wrapped value there, and both are violations of different clauses
        REL = {"C01": ("tiny-rec",), "C02": ("tiny-oob", "oob-streams", "oob-rects"), "C03": ("long",), "C04": ("contig-tiny", "contig-rects"),
               "C06": ("spi-grid",), "C07": ("parallel", "huge-fill"), "C08": ("tiny-oob", "long"), "C09": ("init-grid",), "C10": ("reorient-tiny",),
               "C16": ("scroll",), "C20": ("overhead",)}
        for (name, batch, profile, g) in list(p.families):
            if name in REL.get(prop, ()) and batch and profile == "dev":
                p.families.append((name + "-release", True, "rel", g))
    else:
        # quick tier: a small release-profile sample, so that a change that only shows without overflow checks / debug
        # assertions (a side effect inside debug_assert!, a wrapping counter) is seen on every change too
        RELQ = {"C01": lambda ids, rng: G.f_contig_tiny(ids, rng, sample=0.04, ifaces=("rec", "spi")) + G.f_small_alphabet(ids, rng, 60, ifaces=("spi", "p8", "rec")),
                "C03": lambda ids, rng: G.f_long_streams(ids, rng, 50, ifaces=("rec", "spi")),
                "C04": lambda ids, rng: G.f_contig_tiny(ids, rng, sample=0.05, ifaces=("rec", "spi")),
                "C06": lambda ids, rng: G.f_spi_grid(ids, rng, sample=0.2, big=1),
                "C07": lambda ids, rng: G.f_parallel(ids, rng, sample=0.2, big=1),
                "C08": lambda ids, rng: G.f_long_streams(ids, rng, 40, ifaces=("rec", "spi")) + G.f_small_alphabet(ids, rng, 60, ifaces=("p8", "spi")),
                "C10": lambda ids, rng: G.f_reorient(ids, rng, G.tiny_model_list([(2, 3), (4, 3)], rng, 2), ifaces=("rec", "spi")),
                "C13": lambda ids, rng: G.f_lifecycle(ids, rng, n_per_model=2, length=8),
                "C16": lambda ids, rng: G.f_scroll(ids, rng, nrandom=60, offsets="sample")[::3],
                "C20": lambda ids, rng: [G.measure_rowcap(ids)] + G.f_long_streams(ids, rng, 50, ifaces=("rec", "spi"))}
        if prop in RELQ:
            p.families.append(("release-sample", True, "rel", RELQ[prop]))
    return p


def _has_oob(sc, c):
    w, h = sc["cfg"].get("w", 1), sc["cfg"].get("h", 1)
    lw, lh = (w, h) if sc["cfg"].get("rot", 0) in (0, 2) else (h, w)
    if c["name"] == "draw_iter":
        return any(not (0 <= p[0] < lw and 0 <= p[1] < lh) for p in c["px"])
    if c["name"] in ("fill_solid", "fill_contiguous"):
        r = c["rect"]
        return r[2] > 0 and r[3] > 0 and not (r[0] >= 0 and r[1] >= 0 and r[0] + r[2] <= lw and r[1] + r[3] <= lh)
    return False


# ----------------------------------------------------------------------------- running

def execute_families(p, seed, workdir, only_build=None):
    """returns (all scenarios by id, viol list, stat, states, transitions, per-family info)"""
    ids = gen.Ids()
    by_id = {}
    viol, stat = [], {}
    states = trans = 0
    fam_info = []
    seen = set()
    for (name, batch, profile, g) in p.families:
        rng = random.Random("%d/%s/%s" % (seed, p.prop, name))
        scs = g(ids, rng)
        if isinstance(scs, dict):      # two-phase family: measure the fault-free runs first, then expand
            binary = run.build_harness(batch, profile)
            bases = scs["bases"]
            lines = run.exec_scenarios(binary, [{k: v for k, v in sc.items() if not k.startswith("_")} for sc in bases],
                                       workdir, name + "-probe")
            nf = {}
            for ln in lines:
                if ln.startswith('{"k":"call"'):
                    r = json.loads(ln)
                    nf[(r["id"], r["i"])] = r["nf"] if r["res"] == "ok" else 0
            scs = []
            for b in bases:
                scs += gen.fault_expand(ids, rng, b, nf.get((b["id"], b["_target"]), 0))
        for sc in scs:
            gen.vary_builder_order(sc, rng)
        uniq = []
        for sc in scs:
            h = run.scenario_hash(sc) + ("b" if batch else "n") + profile
            if h in seen:
                continue
            seen.add(h)
            sc["_build"] = {"batch": batch, "profile": profile}
            uniq.append(sc)
        if not uniq:
            continue
        binary = run.build_harness(batch, profile)
        t0 = time.time()
        to_run = [{k: v for k, v in sc.items() if not k.startswith("_")} for sc in uniq]
        lines = run.exec_scenarios(binary, to_run, workdir, name)
        t1 = time.time()
        v, st, ds, gs = run.validate_traces(lines, workdir, name, profile=profile)
        t2 = time.time()
        log("[%s] family %s: %d scenarios, %d calls, exec %.1fs, validate %.1fs, %d verdict records"
            % (p.prop, name, len(uniq), st.get("calls", 0), t1 - t0, t2 - t1, len(v)))
        for sc in uniq:
            by_id[sc["id"]] = sc
        viol += v
        for k, x in st.items():
            if k == "rowcap":
                stat[k] = max(stat.get(k, 0), x)
            elif k == "_drift":
                stat[k] = stat.get(k, []) + x
            else:
                stat[k] = stat.get(k, 0) + x
        if st.get("drift", 0):
            log("[%s] DRIFT (not an alarm): %d of %d compared calls of family %s differ from the driver layer of the specification, e.g. %s"
                % (p.prop, st["drift"], st.get("driftcmp", 0), name, st.get("_drift", [])[:3]))
        states += ds
        trans += gs
        fam_info.append({"family": name, "batch": batch, "profile": profile, "scenarios": len(uniq),
                         "calls": st.get("calls", 0), "wire_ops": st.get("wireops", 0)})
    return by_id, viol, stat, states, trans, fam_info


def execute_tables(p, seed, workdir):
    bad_all, rows, states, trans, info, samples, distinct = [], 0, 0, 0, [], [], 0
    for (name, batch, profile, g) in p.tables:
        rng = random.Random("%d/%s/%s" % (seed, p.prop, name))
        reqs = g(rng)
        seen, uniq = set(), []
        for r in reqs:
            k = json.dumps(r, sort_keys=True)
            if k not in seen:
                seen.add(k)
                uniq.append(r)
        binary = run.build_harness(batch, profile)
        t0 = time.time()
        lines = run.exec_table(binary, uniq, workdir, name)
        t1 = time.time()
        bad, n, ds, gs = run.validate_rows(lines, workdir, name)
        tdrift = getattr(run.validate_rows, "last_drift", 0)
        log("[%s] table %s: %d rows, exec %.1fs, validate %.1fs, %d bad rows, %d rows drifting from the model"
            % (p.prop, name, n, t1 - t0, time.time() - t1, len(bad), tdrift))
        execute_tables.drift = getattr(execute_tables, "drift", 0) + tdrift
        for b in bad:
            b["_req"] = uniq[b["row"]]
            b["_build"] = {"batch": batch, "profile": profile}
        bad_all += bad
        rows += n
        states += ds
        trans += gs
        distinct += len(uniq)
        info.append({"table": name, "rows": n, "batch": batch, "profile": profile})
        if uniq:
            samples += [uniq[0], uniq[len(uniq) // 2], uniq[-1]]
    return bad_all, rows, states, trans, info, samples, distinct


def write_replay(prop, sc, vs):
    os.makedirs(os.path.join(VERIF, "replays"), exist_ok=True)
    h = run.scenario_hash(sc)
    path = os.path.join(VERIF, "replays", "%s-%s.json" % (prop, h))
    with open(path, "w") as f:
        json.dump({"property": prop, "build": sc.get("_build", {"batch": True, "profile": "dev"}),
                   "scenario": {k: v for k, v in sc.items() if not k.startswith("_")},
                   "violations": vs}, f, indent=1)
    return path


def verdicts(prop, by_id, viol):
    """split the monitor's records for this property into known findings and new violations"""
    known, _fixed = load_known()
    mine = [v for v in viol if prop in v["props"]]
    others = {}
    for v in viol:
        for q in v["props"]:
            if q != prop:
                others[q] = others.get(q, 0) + 1
    new_by_scn, known_hits = {}, {}
    for v in mine:
        sc = by_id[v["id"]]
        k = known_match(prop, v, sc, known)
        if k:
            known_hits.setdefault(k["line"], []).append(v)
        else:
            new_by_scn.setdefault(v["id"], []).append(v)
    return new_by_scn, known_hits, others


def check(prop, tier, seed):
    t0 = time.time()
    p = plan_for(prop, tier, seed)
    workdir = os.path.join(run.WORK, "%s.%d" % (prop, os.getpid()))
    shutil.rmtree(workdir, ignore_errors=True)
    os.makedirs(workdir, exist_ok=True)
    try:
        mc_res = []
        for (module, cfgname, workers, timeout, env) in p.mc:
            r = run.run_mc(module, workdir, workers=workers, timeout=timeout, cfg=cfgname, env=env)
            edges = r["tags"].get("EDGE", [])
            log("[%s] design-level model %s/%s: %d distinct states, %d transitions, %d exported programs, %.1fs"
                % (prop, module, cfgname, r["states"], r["transitions"], len(edges), r["wall_s"]))
            r["module"] = "%s/%s" % (module, cfgname)
            r["exported_programs"] = len(edges)
            mc_res.append(r)
            if edges:
                add_edge_families(p, cfgname, edges)
        proof_res = []
        for (module, expected) in p.proofs:
            pr = run.run_tlapm(module, workdir)
            log("[%s] TLAPS %s: %d of %d obligations proved in %.1fs" % (prop, module, pr["proved"], pr["obligations"], pr["wall_s"]))
            if pr["proved"] != pr["obligations"] or pr["obligations"] < expected:
                raise ToolError("TLAPS proof of %s incomplete: %s" % (module, pr))
            proof_res.append(pr)
        by_id, viol, stat, tstates, ttrans, fam_info = execute_families(p, seed, workdir)
        new_by_scn, known_hits, others = verdicts(prop, by_id, viol)
        for line, vs in known_hits.items():
            print("KNOWN-FINDING: property=%s %s (%d occurrences in this run)" % (prop, line, len(vs)))
        rc = 0
        replay_paths = []
        tbad, trows, tst, ttr, tinfo, tsamples, tdistinct = execute_tables(p, seed, workdir)
        tstates += tst
        ttrans += ttr
        for b in tbad[:20]:
            h = run.scenario_hash({"cfg": b["_req"], "calls": [], "fault": None})
            path = os.path.join(VERIF, "replays", "%s-row-%s.json" % (prop, h))
            os.makedirs(os.path.dirname(path), exist_ok=True)
            with open(path, "w") as f:
                json.dump({"property": prop, "build": b["_build"], "table_request": b["_req"], "what": b["what"]}, f, indent=1)
            print("VIOLATION property=%s replay=%s" % (prop, path))
            print("  %s %s: %s" % (b["f"], json.dumps(b["_req"]["in"])[:200], b["what"]))
            rc = 1
        if len(tbad) > 20:
            print("  (%d further bad rows not written out)" % (len(tbad) - 20))
        for sid, vs in sorted(new_by_scn.items())[:20]:
            path = write_replay(prop, by_id[sid], vs)
            replay_paths.append(path)
            print("VIOLATION property=%s replay=%s" % (prop, path))
            print("  first verdict: call %d %s: %s" % (vs[0]["i"], vs[0]["name"], vs[0]["what"]))
            rc = 1
        if len(new_by_scn) > 20:
            print("  (%d further violating scenarios not written out)" % (len(new_by_scn) - 20))
        if others:
            log("[%s] note: verdict records attributed to other properties in these traces: %s" % (prop, others))
            if os.environ.get("VERIF_SHOW_OTHERS"):
                shown = set()
                for v in viol:
                    if prop not in v["props"] and v["id"] not in shown and len(shown) < 6:
                        shown.add(v["id"])
                        log("    other: call %d %s %s: %s\n      cfg=%s\n      calls=%s" % (v["i"], v["name"], v["props"], v["what"][:160],
                            json.dumps(by_id[v["id"]]["cfg"]), json.dumps(by_id[v["id"]]["calls"])[:600]))
        scs = list(by_id.values())
        nt = sum(1 for sc in scs if p.nontrivial(sc))
        samples = []
        if scs:
            for sc in (scs[0], scs[len(scs) // 2], scs[-1]):
                s = {k: v for k, v in sc.items() if not k.startswith("_")}
                s["calls"] = s["calls"][:12] + ([{"...": "%d more calls" % (len(s["calls"]) - 12)}] if len(s["calls"]) > 12 else [])
                samples.append(s)
        mc_states = sum(r["states"] for r in mc_res)
        mc_trans = sum(r["transitions"] for r in mc_res)
        ev = {
            "property_id": prop, "tier": tier, "seed": seed, "level": p.level,
            "coverage": {
                "states": mc_states + tstates, "transitions": mc_trans + ttrans,
                "mc_states": mc_states, "mc_transitions": mc_trans,
                "mc_models": [{k: r[k] for k in ("module", "states", "transitions", "wall_s")} for r in mc_res],
                "trace_states": tstates, "trace_transitions": ttrans,
                "traces_validated_against_impl": stat.get("done", 0) + (1 if trows else 0) * len(tinfo),
                "table_rows_validated": trows,
                "tables": tinfo,
                "scenarios_executed": len(scs),
                "evaluations": stat.get("calls", 0) + trows,
                "wire_ops_replayed": stat.get("wireops", 0),
                "calls_that_changed_the_picture": stat.get("painted", 0),
                "faults_injected": stat.get("faults", 0),
                "distinct_nontrivial": nt + tdistinct,
                "rule": p.rule,
                "families": fam_info,
                "samples": samples + tsamples,
                "exhaustive": p.exhaustive,
                "known_findings_seen": sorted(known_hits.keys()),
                "verdict_records_for_other_properties": others,
                "measured_row_capacity": stat.get("rowcap", 0),
                "tlaps_proofs": proof_res,
                "drift_calls_compared_with_driver_layer": stat.get("driftcmp", 0),
                "drift_events": stat.get("drift", 0) + getattr(execute_tables, "drift", 0),
                "drift_examples": stat.get("_drift", [])[:5],
            },
            "assumptions": p.assumptions + [
                "reference MIPI-DCS decoder of spec/Controller.tla (DESIGN.md section 4)",
                "harness records faithfully (self-test: corrupted traces are rejected)",
            ],
            "wall_s": round(time.time() - t0, 1),
            "violations": len(new_by_scn) + len(tbad),
        }
        os.makedirs(os.path.join(VERIF, "evidence"), exist_ok=True)
        with open(os.path.join(VERIF, "evidence", "%s.json" % prop), "w") as f:
            json.dump(ev, f, indent=1)
        log("[%s] %s tier done in %.1fs: %d scenarios, %d calls validated, %d new violating scenarios"
            % (prop, tier, time.time() - t0, len(scs), stat.get("calls", 0), len(new_by_scn)))
        return rc
    finally:
        shutil.rmtree(workdir, ignore_errors=True)


def replay(prop, path):
    d = json.load(open(path))
    b = d.get("build", {"batch": True, "profile": "dev"})
    workdir = os.path.join(run.WORK, "replay.%d" % os.getpid())
    if "table_request" in d:
        try:
            binary = run.build_harness(b["batch"], b["profile"])
            lines = run.exec_table(binary, [d["table_request"]], workdir, "replay")
            bad, _, _, _ = run.validate_rows(lines, workdir, "replay")
            if bad:
                print("  %s: %s" % (bad[0]["f"], bad[0]["what"]))
                print("VIOLATION property=%s replay=%s" % (prop, path))
                return 1
            print("replay: property %s holds on this row" % prop)
            return 0
        finally:
            shutil.rmtree(workdir, ignore_errors=True)
    sc = d["scenario"]
    try:
        binary = run.build_harness(b["batch"], b["profile"])
        lines = run.exec_scenarios(binary, [sc], workdir, "replay")
        viol, stat, _, _ = run.validate_traces(lines, workdir, "replay", shards=1)
        sc["_build"] = b
        new_by_scn, known_hits, _ = verdicts(prop, {sc["id"]: sc}, viol)
        for line, vs in known_hits.items():
            print("KNOWN-FINDING: property=%s %s" % (prop, line))
        if new_by_scn:
            for vs in new_by_scn.values():
                for v in vs:
                    print("  call %d %s: %s" % (v["i"], v["name"], v["what"]))
            print("VIOLATION property=%s replay=%s" % (prop, path))
            return 1
        print("replay: property %s holds on this scenario" % prop)
        return 0
    finally:
        shutil.rmtree(workdir, ignore_errors=True)


def _corruptions(lines):
    """mechanical corruptions of a recorded trace: each returns (what, new lines) or None if not applicable"""
    import copy
    import re
    out = []
    recs = [json.loads(l) for l in lines]
    calls = [i for i, r in enumerate(recs) if r["k"] == "call"]

    def dump(rs):
        res = []
        for r in rs:
            r = dict(r)
            k = r.pop("k")
            rid = r.pop("id")
            if k == "scn":
                body = json.dumps(r, separators=(",", ":"))
                res.append('{"k":"scn","id":%d,%s' % (rid, body[1:]))
            else:
                i = r.pop("i")
                ops = r.pop("ops")
                body = json.dumps(r, separators=(",", ":"))
                res.append('{"k":"call","id":%d,"i":%d,%s,"ops":%s}' % (rid, i, body[1:-1], json.dumps(ops, separators=(",", ":"))))
        return res

    # 1. change one word that the controller interprets: pixel data after a memory-write-start, or a parameter of a
    #    command the controller decodes (vendor parameters are ignored by the reference decoder, so changing them
    #    would be a benign corruption)
    KNOWN = (42, 43, 51, 54, 55, 58)

    def significant(ops):
        """indices (op index, position kind) of operations whose payload matters, in order"""
        res, cur, dc = [], None, None
        for j, op in enumerate(ops):
            if op[0] == "dc" and op[-1] == 1:
                dc = op[1]
            elif op[0] == "spi" and op[-1] == 1 and op[1]:
                if dc == 0:
                    cur = op[1][-1]
                elif cur == 44 or cur in KNOWN:
                    res.append((j, 1))
            elif op[0] == "cmd" and op[-1] == 1:
                cur = op[1]
                if op[2] and cur in KNOWN:
                    res.append((j, 2))
            elif op[0] == "px" and op[-1] == 1 and op[1] and cur == 44:
                res.append((j, 1))
        return res

    for i in reversed(calls):
        sig = significant(recs[i]["ops"])
        if sig:
            j, pos = sig[-1]
            rs = copy.deepcopy(recs)
            rs[i]["ops"][j][pos][-1] = (rs[i]["ops"][j][pos][-1] + 36) % 256
            out.append(("one pixel / parameter word changed in call %d" % recs[i]["i"], dump(rs)))
            break
    else:
        for i in reversed(calls):
            ops = recs[i]["ops"]
            dj = [j for j, op in enumerate(ops) if op[0] == "d" and op[-1] == 1]
            if dj:
                rs = copy.deepcopy(recs)
                rs[i]["ops"][dj[-1]][2] = 1 - rs[i]["ops"][dj[-1]][2]
                out.append(("one data-pin level changed in call %d" % recs[i]["i"], dump(rs)))
                break
    # 2. remove one bus operation whose payload the controller interprets (see above)
    for i in reversed(calls):
        sig = significant(recs[i]["ops"])
        if sig:
            rs = copy.deepcopy(recs)
            del rs[i]["ops"][sig[-1][0]]
            out.append(("one bus operation removed from call %d" % recs[i]["i"], dump(rs)))
            break
    # 3. a result changed
    for i in reversed(calls):
        if recs[i]["res"] == "ok":
            rs = copy.deepcopy(recs)
            rs[i]["res"] = "panic"
            rs[i]["pmsg"] = "selftest"
            out.append(("result of call %d changed to panic" % recs[i]["i"], dump(rs)))
            break
    return out


def selftest(prop, seed):
    """Binding demonstration: record a few scenarios of this property's families on the real code, corrupt the
    recording mechanically (one data word, one removed bus operation, one result) and require the trace
    specification to reject every corrupted trace while accepting the original."""
    p = plan_for(prop, "quick", seed)
    workdir = os.path.join(run.WORK, "selftest.%s.%d" % (prop, os.getpid()))
    results = []
    try:
        ids = gen.Ids()
        for (name, batch, profile, g) in [f for f in p.families if "sequences" not in f[0] and "smallalpha" not in f[0]][:3]:
            rng = random.Random("%d/%s/%s" % (seed, p.prop, name))
            scs = g(ids, rng)
            if isinstance(scs, dict):
                scs = scs["bases"]
            scs = [{k: v for k, v in sc.items() if not k.startswith("_")} for sc in scs[:40:8]]
            if not scs:
                continue
            binary = run.build_harness(batch, profile)
            lines = run.exec_scenarios(binary, scs, workdir, "st")
            v0, st0, _, _ = run.validate_traces(lines, workdir, "st-orig", shards=1)
            groups, cur = [], []
            for ln in lines:
                if ln.startswith('{"k":"scn"'):
                    cur = [ln]
                    groups.append(cur)
                else:
                    cur.append(ln)
            for gi, gl in enumerate(groups):
                for what, newlines in _corruptions(gl):
                    v, st, _, _ = run.validate_traces(newlines, workdir, "st-c", shards=1)
                    rejected = len(v) > len([x for x in v0 if x["id"] == json.loads(gl[0])["id"]]) or st.get("drift", 0) > 0
                    results.append({"family": name, "scenario": json.loads(gl[0])["id"], "corruption": what, "rejected": rejected})
            results.append({"family": name, "original_verdict_records": len(v0)})
        for (name, batch, profile, g) in p.tables[:1]:
            rng = random.Random("%d/%s/%s" % (seed, p.prop, name))
            reqs = g(rng)[:400:7]
            binary = run.build_harness(batch, profile)
            lines = run.exec_table(binary, reqs, workdir, "st")
            bad0, _, _, _ = run.validate_rows(lines, workdir, "st-orig")
            import re
            corrupted, n = [], 0
            for ln in lines:
                r = json.loads(ln)
                txt = json.dumps(r["out"], separators=(",", ":"))
                m = re.search(r"\d+", txt)
                if m and n < 25:
                    val = int(m.group(0))
                    txt2 = txt[:m.start()] + str((val + 1) % 251 if val < 256 else val + 1) + txt[m.end():]
                    r["out"] = json.loads(txt2)
                    n += 1
                    body = json.dumps({k: v for k, v in r.items() if k != "k"}, separators=(",", ":"))
                    corrupted.append('{"k":"fn",' + body[1:])
            bad, _, _, _ = run.validate_rows(corrupted, workdir, "st-c")
            dr = getattr(run.validate_rows, "last_drift", 0)
            results.append({"table": name, "rows_corrupted_in_first_number": n, "rejected": len(bad) + dr,
                            "rejected_as_violation": len(bad), "rejected_as_drift_from_the_model": dr, "original_bad_rows": len(bad0)})
        ok = all(r.get("rejected", True) is not False for r in results) and all(
            r.get("rejected", 1) >= r.get("rows_corrupted_in_first_number", 0) * 0.8 for r in results if "table" in r)
        os.makedirs(os.path.join(VERIF, "selftest"), exist_ok=True)
        with open(os.path.join(VERIF, "selftest", "%s.json" % prop), "w") as f:
            json.dump({"property": prop, "seed": seed, "all_corruptions_rejected": ok, "results": results}, f, indent=1)
        for r in results:
            print(json.dumps(r))
        print("SELFTEST %s: %s" % (prop, "every corrupted recording was rejected" if ok else "SOME CORRUPTED RECORDINGS WERE ACCEPTED"))
        return 0 if ok else 2
    finally:
        shutil.rmtree(workdir, ignore_errors=True)
