"""Orchestration: build the harness against /repo's working tree, execute scenarios on the real
code, validate the recorded traces with TLC (Trace.tla), run the MC_* models, collect verdicts.

No oracle lives here: this file moves files around, shards them and parses the lines TLC prints.
"""
import fcntl
import hashlib
import json
import os
import re
import shutil
import subprocess
import sys
import time
from concurrent.futures import ThreadPoolExecutor

VERIF = os.path.dirname(os.path.dirname(os.path.abspath(__file__)))
HARNESS = os.path.join(VERIF, "harness")
SPEC = os.path.join(VERIF, "spec")
WORK = os.path.join(VERIF, "work")
NCPU = os.cpu_count() or 8


class ToolError(Exception):
    pass


def log(*a):
    print(*a, file=sys.stderr, flush=True)


# ----------------------------------------------------------------------------- harness build

def build_harness(batch=True, profile="dev"):
    """cargo build of the harness variant against /repo's current working tree; returns the binary path"""
    os.makedirs(WORK, exist_ok=True)
    tdir = os.path.join(HARNESS, "target-%s" % ("batch" if batch else "nobatch"))
    cmd = ["cargo", "build", "--offline", "--quiet", "--target-dir", tdir]
    if batch:
        cmd += ["--features", "batch"]
    if profile == "rel":
        cmd += ["--profile", "rel"]
    env = dict(os.environ, CARGO_NET_OFFLINE="true")
    lockf = open(os.path.join(WORK, ".cargo.lock"), "w")
    fcntl.flock(lockf, fcntl.LOCK_EX)
    try:
        t0 = time.time()
        p = subprocess.run(cmd, cwd=HARNESS, env=env, capture_output=True, text=True)
        if p.returncode != 0:
            raise ToolError("harness does not build against the tree:\n" + p.stderr[-4000:])
        log("[build] harness %s/%s ready in %.1fs" % ("batch" if batch else "nobatch", profile, time.time() - t0))
    finally:
        fcntl.flock(lockf, fcntl.LOCK_UN)
        lockf.close()
    return os.path.join(tdir, "debug" if profile == "dev" else "rel", "mvh")


# ----------------------------------------------------------------------------- executing scenarios

def exec_scenarios(binary, scenarios, outdir, name, per_call_timeout=60):
    """Run scenarios through the harness (child process).  A stalled child is killed, the call in
    flight is recorded as res:"hang" and execution resumes after that scenario.  Returns the list of
    trace lines (str) with the begin markers removed."""
    os.makedirs(outdir, exist_ok=True)
    lines_out = []
    todo = list(scenarios)
    part = 0
    while todo:
        part += 1
        inp = os.path.join(outdir, "%s.%d.scn.ndjson" % (name, part))
        outp = os.path.join(outdir, "%s.%d.trace.ndjson" % (name, part))
        with open(inp, "w") as f:
            for sc in todo:
                f.write(json.dumps(sc, separators=(",", ":")) + "\n")
        # overall limit: generous, proportional to the amount of work
        limit = max(per_call_timeout, 30 + len(todo) // 200)
        try:
            p = subprocess.run([binary, "exec", inp, outp], capture_output=True, text=True, timeout=limit)
            hung = False
            if p.returncode != 0:
                raise ToolError("harness failed (exit %d): %s" % (p.returncode, p.stderr[-2000:]))
        except subprocess.TimeoutExpired:
            hung = True
        with open(outp) as f:
            raw = f.read().split("\n")
        last_begin = None
        done_ids = []
        for ln in raw:
            if not ln:
                continue
            if ln.startswith('{"k":"begin"'):
                last_begin = json.loads(ln)
                continue
            if not ln.endswith("}"):
                continue  # truncated by the kill
            lines_out.append(ln)
        if not hung:
            break
        # synthesise the hang record for the call in flight
        if last_begin is None:
            raise ToolError("harness hung before the first call")
        sid, ci = last_begin["id"], last_begin["i"]
        # drop a possibly complete record of the same call (cannot exist) and add the synthetic one
        sc = next(s for s in todo if s["id"] == sid)
        call = sc["calls"][ci - 1]
        lines_out.append(json.dumps({"k": "call", "id": sid, "i": ci, "name": call["name"], "args": call,
                                     "res": "hang", "err": [], "errk": 0, "pmsg": "no progress within the time limit",
                                     "ploc": "", "obs": {}, "x": {}, "nf": 0, "nops": 0, "ops": []},
                                    separators=(",", ":")))
        idx = next(i for i, s in enumerate(todo) if s["id"] == sid)
        todo = todo[idx + 1:]
        os.remove(inp)
        os.remove(outp)
    # clean scenario/trace part files (they are re-created on replay)
    for fn in os.listdir(outdir):
        if fn.startswith(name + ".") and (fn.endswith(".scn.ndjson") or fn.endswith(".trace.ndjson")):
            os.remove(os.path.join(outdir, fn))
    return lines_out


# ----------------------------------------------------------------------------- TLC

TLC_JAR = "/opt/veriftools/tla/tla2tools.jar"


def tlc_cmd(spec, cfg, metadir, workers=1, extra=(), xmx="3g"):
    return ["tlc", "-workers", str(workers), "-metadir", metadir, "-cleanup", "-noGenerateSpecTE",
            "-config", cfg, *extra, spec]


def run_tlc(spec, cfg, metadir, env=None, workers=1, extra=(), timeout=1800, xmx="3g", xss="1g"):
    e = dict(os.environ)
    e["JAVA_TOOL_OPTIONS"] = "-Xss%s -Xmx%s" % (xss, xmx)
    if env:
        e.update(env)
    t0 = time.time()
    try:
        p = subprocess.run(tlc_cmd(spec, cfg, metadir, workers, extra), cwd=SPEC, env=e,
                           capture_output=True, text=True, timeout=timeout)
    except subprocess.TimeoutExpired:
        shutil.rmtree(metadir, ignore_errors=True)
        raise ToolError("TLC timed out after %ds on %s" % (timeout, os.path.basename(cfg)))
    shutil.rmtree(metadir, ignore_errors=True)
    return p.returncode, p.stdout + p.stderr, time.time() - t0


RE_STATES = re.compile(r"(\d+) states generated, (\d+) distinct states found")
RE_TAG = re.compile(r'^<<"(VIOL|STAT|EDGE|REPLAY|DRIFT)", "(.*)">>$')


def parse_tagged(out):
    res = {}
    for ln in out.split("\n"):
        m = RE_TAG.match(ln.strip())
        if m:
            # TLC prints the TLA+ string with \" and \\ escapes
            txt = m.group(2).replace('\\"', '"').replace("\\\\", "\\")
            res.setdefault(m.group(1), []).append(txt)
    return res


def parse_states(out):
    gen = dist = 0
    for m in RE_STATES.finditer(out):
        gen, dist = int(m.group(1)), int(m.group(2))
    return gen, dist


def validate_traces(lines, workdir, name, shards=None, timeout=1800, profile="dev"):
    """Shard the trace (scenario-aligned), validate every shard with Trace.tla.
    Returns (viol list, stat dict, tlc states, tlc transitions)."""
    os.makedirs(workdir, exist_ok=True)
    # group by scenario
    groups = []
    for ln in lines:
        if ln.startswith('{"k":"scn"'):
            groups.append([ln])
        else:
            if not groups:
                raise ToolError("trace does not start with a scenario record")
            groups[-1].append(ln)
    total = sum(len(l) for g in groups for l in g)
    if shards is None:
        shards = max(1, min(12, len(groups) // 6))
    # a scenario that measures something every later verdict depends on (the row capacity, C20) goes first in every shard
    common = [g for g in groups if '"tag":"measure_rowcap"' in g[0]]
    groups = [g for g in groups if '"tag":"measure_rowcap"' not in g[0]]
    if not groups:          # nothing but the measuring scenario itself: it is validated like any other
        groups, common = common, []
    # balance by bytes
    bins = [[] for _ in range(shards)]
    sizes = [0] * shards
    for g in sorted(groups, key=lambda g: -sum(len(l) for l in g)):
        i = sizes.index(min(sizes))
        bins[i].append(g)
        sizes[i] += sum(len(l) for l in g)
    files = []
    for i, b in enumerate(bins):
        if not b:
            continue
        fn = os.path.join(workdir, "%s.shard%d.ndjson" % (name, i))
        with open(fn, "w") as f:
            for g in common + b:
                for l in g:
                    f.write(l + "\n")
        files.append(fn)

    def one(fn):
        md = fn + ".md"
        rc, out, dt = run_tlc(os.path.join(SPEC, "Trace.tla"), os.path.join(SPEC, "TraceRel.cfg" if profile == "rel" else "Trace.cfg"), md,
                              env={"TRACE": fn}, timeout=timeout)
        tags = parse_tagged(out)
        if rc != 0 or "VIOL" not in tags or "STAT" not in tags:
            os.makedirs(os.path.join(WORK, "keep"), exist_ok=True)
            keep = os.path.join(WORK, "keep", os.path.basename(fn) + ".tlcout")
            with open(keep, "w") as f:
                f.write(out)
            shutil.copy(fn, os.path.join(WORK, "keep", os.path.basename(fn)))
            raise ToolError("trace validation failed to run to completion on %s (rc=%d); TLC output kept at %s\n%s"
                            % (fn, rc, keep, out[-3000:]))
        gen, dist = parse_states(out)
        st = json.loads(tags["STAT"][-1])
        st["_drift"] = json.loads(tags["DRIFT"][-1]) if "DRIFT" in tags else []
        return json.loads(tags["VIOL"][-1]), st, gen, dist, dt

    viol, stat, gen, dist = [], {}, 0, 0
    with ThreadPoolExecutor(max_workers=min(12, max(1, len(files)))) as ex:
        for v, st, g, d, dt in ex.map(one, files):
            viol += v
            for k, x in st.items():
                if k == "rowcap":
                    stat[k] = max(stat.get(k, 0), x)
                elif k == "_drift":
                    stat[k] = stat.get(k, []) + x
                else:
                    stat[k] = stat.get(k, 0) + x
            gen += g
            dist += d
    for fn in files:
        try:
            os.remove(fn)
        except OSError:
            pass
    return viol, stat, dist, gen


def exec_table(binary, requests, outdir, name, timeout=1800):
    os.makedirs(outdir, exist_ok=True)
    inp = os.path.join(outdir, name + ".req.ndjson")
    outp = os.path.join(outdir, name + ".tab.ndjson")
    with open(inp, "w") as f:
        for r in requests:
            f.write(json.dumps(r, separators=(",", ":")) + "\n")
    try:
        p = subprocess.run([binary, "table", inp, outp], capture_output=True, text=True, timeout=timeout)
    except subprocess.TimeoutExpired:
        raise ToolError("table generation timed out")
    if p.returncode != 0:
        raise ToolError("harness table failed: " + p.stderr[-2000:])
    with open(outp) as f:
        lines = [l for l in f.read().split("\n") if l]
    os.remove(inp)
    os.remove(outp)
    return lines


def validate_rows(lines, workdir, name, timeout=3000, weight=None):
    """validate table rows with TraceFn.tla; returns (bad rows, number of rows, states, transitions)"""
    os.makedirs(workdir, exist_ok=True)
    total = sum(len(l) for l in lines)
    shards = max(1, min(12, total // 300000 + 1, len(lines) // 50 + 1))
    bins = [[] for _ in range(shards)]
    for i, l in enumerate(lines):
        bins[i % shards].append((i, l))
    files = []
    for i, b in enumerate(bins):
        if not b:
            continue
        fn = os.path.join(workdir, "%s.rows%d.ndjson" % (name, i))
        with open(fn, "w") as f:
            for (_, l) in b:
                f.write(l + "\n")
        files.append((fn, [j for (j, _) in b]))

    def one(item):
        fn, idx = item
        rc, out, dt = run_tlc(os.path.join(SPEC, "TraceFn.tla"), os.path.join(SPEC, "TraceFn.cfg"), fn + ".md",
                              env={"TRACE": fn}, timeout=timeout)
        tags = parse_tagged(out)
        if rc != 0 or "VIOL" not in tags or "STAT" not in tags:
            os.makedirs(os.path.join(WORK, "keep"), exist_ok=True)
            keep = os.path.join(WORK, "keep", os.path.basename(fn) + ".tlcout")
            with open(keep, "w") as f:
                f.write(out)
            raise ToolError("table validation failed to run to completion on %s (rc=%d); output kept at %s\n%s" % (fn, rc, keep, out[-3000:]))
        bad = json.loads(tags["VIOL"][-1])
        for b in bad:
            b["row"] = idx[b["row"] - 1]
        gen, dist = parse_states(out)
        st = json.loads(tags["STAT"][-1])
        return bad, st["rows"], gen, dist, st.get("drift", 0)

    bad, rows, gen, dist = [], 0, 0, 0
    validate_rows.last_drift = 0
    with ThreadPoolExecutor(max_workers=12) as ex:
        for b, n, g, d, dr in ex.map(one, files):
            bad += b
            rows += n
            gen += g
            dist += d
            validate_rows.last_drift += dr
    for fn, _ in files:
        try:
            os.remove(fn)
        except OSError:
            pass
    return bad, rows, dist, gen


def run_mc(module, workdir, workers=8, timeout=1800, env=None, extra=(), cfg=None):
    """Design-level model checking of an MC_* instance.  Failure is a tool error (exit 2), never a VIOLATION."""
    os.makedirs(workdir, exist_ok=True)
    md = os.path.join(workdir, module + ".md")
    rc, out, dt = run_tlc(os.path.join(SPEC, module + ".tla"), os.path.join(SPEC, (cfg or module) + ".cfg"), md,
                          workers=workers, timeout=timeout, env=env, extra=extra, xmx="8g")
    gen, dist = parse_states(out)
    if rc != 0:
        keep = os.path.join(workdir, module + ".tlcout")
        with open(keep, "w") as f:
            f.write(out)
        raise ToolError("design-level model %s failed (rc=%d), output kept at %s:\n%s" % (module, rc, keep, out[-3000:]))
    return {"module": module, "states": dist, "transitions": gen, "wall_s": round(dt, 1), "tags": parse_tagged(out)}


def run_tlapm(module, workdir, timeout=900):
    """TLAPS proof of an unbounded lemma (optional strengthening; an incomplete proof is a tool error)"""
    os.makedirs(workdir, exist_ok=True)
    cache = os.path.join(workdir, "tlacache")
    t0 = time.time()
    try:
        p = subprocess.run(["tlapm", "--threads", "4", "--cache-dir", cache, module + ".tla"], cwd=SPEC,
                           capture_output=True, text=True, timeout=timeout)
    except subprocess.TimeoutExpired:
        raise ToolError("tlapm timed out on %s" % module)
    out = p.stdout + p.stderr
    m = re.search(r"All (\d+) obligations? proved", out)
    f = re.search(r"(\d+)/(\d+) obligations failed", out)
    shutil.rmtree(os.path.join(SPEC, ".tlacache"), ignore_errors=True)
    if m:
        n = int(m.group(1))
        return {"module": module, "obligations": n, "proved": n, "wall_s": round(time.time() - t0, 1)}
    if f:
        return {"module": module, "obligations": int(f.group(2)), "proved": int(f.group(2)) - int(f.group(1)), "wall_s": round(time.time() - t0, 1)}
    raise ToolError("tlapm failed on %s: %s" % (module, out[-1500:]))


def scenario_hash(sc):
    d = {"cfg": sc["cfg"], "calls": sc["calls"], "fault": sc.get("fault"), "faults": sc.get("faults")}
    return hashlib.sha1(json.dumps(d, sort_keys=True).encode()).hexdigest()[:12]
